//! svgdx verification worker: runs the real library, one job per thread, and
//! emits a call/return event log (JSON lines) on stdout.
//!
//! Protocol (stdin, one command per line):
//!   JOB <id> <api> <stack_kib> <repeat> <max_evals> <cfg> <hex input>
//!   THREADS <n>     ... JOB lines ... END      (jobs of the batch run concurrently on n threads)
//! api: str | stream | streamshort | strseq | probe.  cfg: '-' or ';'-separated k=v (string values hex encoded).
use std::cell::RefCell;
use std::io::{BufRead, Write};
use std::panic;
use std::sync::atomic::{AtomicBool, AtomicU64, Ordering};
use std::sync::{Arc, Mutex};
use std::time::{Duration, Instant};

use svgdx::verif;
use svgdx::TransformConfig;

thread_local! {
    static PANIC_INFO: RefCell<Option<(String, String)>> = const { RefCell::new(None) };
}

static CUR_JOB: AtomicU64 = AtomicU64::new(0); // numeric handle of running job (single mode)
static CUR_MAX_EVALS: AtomicU64 = AtomicU64::new(0);
static CUR_ACTIVE: AtomicBool = AtomicBool::new(false);
static CUR_START_MS: AtomicU64 = AtomicU64::new(0);
static CUR_PTHREAD: AtomicU64 = AtomicU64::new(0); // pthread_t of the thread running the current job (0 = none)
static CUR_STALL_MS: AtomicU64 = AtomicU64::new(20_000); // CPU time the job may burn without reaching any hook

fn unhex(s: &str) -> Option<Vec<u8>> {
    if s == "-" {
        return Some(vec![]);
    }
    let b = s.as_bytes();
    if b.len() % 2 != 0 {
        return None;
    }
    let mut out = Vec::with_capacity(b.len() / 2);
    for i in (0..b.len()).step_by(2) {
        let h = (b[i] as char).to_digit(16)?;
        let l = (b[i + 1] as char).to_digit(16)?;
        out.push((h * 16 + l) as u8);
    }
    Some(out)
}

fn hex(b: &[u8]) -> String {
    const T: &[u8; 16] = b"0123456789abcdef";
    let mut s = String::with_capacity(b.len() * 2);
    for &x in b {
        s.push(T[(x >> 4) as usize] as char);
        s.push(T[(x & 15) as usize] as char);
    }
    s
}

fn json_str(s: &str) -> String {
    let mut o = String::with_capacity(s.len() + 2);
    o.push('"');
    for c in s.chars() {
        match c {
            '"' => o.push_str("\\\""),
            '\\' => o.push_str("\\\\"),
            '\n' => o.push_str("\\n"),
            '\r' => o.push_str("\\r"),
            '\t' => o.push_str("\\t"),
            c if (c as u32) < 0x20 => o.push_str(&format!("\\u{:04x}", c as u32)),
            c => o.push(c),
        }
    }
    o.push('"');
    o
}

fn parse_cfg(s: &str) -> Result<TransformConfig, String> {
    let mut c = TransformConfig::default();
    if s == "-" {
        return Ok(c);
    }
    for kv in s.split(';') {
        if kv.is_empty() {
            continue;
        }
        let (k, v) = kv.split_once('=').ok_or_else(|| format!("bad cfg item {kv}"))?;
        let hs = |v: &str| -> Result<String, String> {
            String::from_utf8(unhex(v).ok_or("bad hex")?).map_err(|e| e.to_string())
        };
        let pf = |v: &str| -> Result<f32, String> {
            match v {
                "nan" => Ok(f32::NAN),
                "inf" => Ok(f32::INFINITY),
                "-inf" => Ok(f32::NEG_INFINITY),
                _ => v.parse::<f32>().map_err(|e| e.to_string()),
            }
        };
        match k {
            "debug" => c.debug = v == "1",
            "scale" => c.scale = pf(v)?,
            "border" => c.border = v.parse().map_err(|_| "border")?,
            "auto" => c.add_auto_styles = v == "1",
            "bg" => c.background = hs(v)?,
            "seed" => c.seed = v.parse().map_err(|_| "seed")?,
            "loop" => c.loop_limit = v.parse().map_err(|_| "loop")?,
            "var" => c.var_limit = v.parse().map_err(|_| "var")?,
            "depth" => c.depth_limit = v.parse().map_err(|_| "depth")?,
            "meta" => c.add_metadata = v == "1",
            "fs" => c.font_size = pf(v)?,
            "ff" => c.font_family = hs(v)?,
            "theme" => c.theme = v.parse().map_err(|_| format!("theme {v}"))?,
            "local" => c.use_local_styles = v == "1",
            "style" => c.svg_style = if v == "none" { None } else { Some(hs(v)?) },
            _ => return Err(format!("unknown cfg key {k}")),
        }
    }
    Ok(c)
}

#[derive(Clone)]
struct Job {
    id: String,
    api: String,
    stack_kib: usize,
    repeat: usize,
    max_evals: u64,
    cfg: TransformConfig,
    input: Vec<u8>,
}

fn parse_job(line: &str) -> Result<Job, String> {
    let p: Vec<&str> = line.split(' ').collect();
    if p.len() != 8 {
        return Err(format!("JOB needs 7 fields, got {}", p.len() - 1));
    }
    Ok(Job {
        id: p[1].to_string(),
        api: p[2].to_string(),
        stack_kib: p[3].parse().map_err(|_| "stack")?,
        repeat: p[4].parse().map_err(|_| "repeat")?,
        max_evals: p[5].parse().map_err(|_| "max_evals")?,
        cfg: parse_cfg(p[6])?,
        input: unhex(p[7]).ok_or("bad hex input")?,
    })
}

/// CPU time consumed so far by another thread (microseconds), via its CPU-time clock.
fn other_thread_cpu_us(pt: u64) -> Option<u64> {
    let mut clk: libc::clockid_t = 0;
    let mut ts = libc::timespec { tv_sec: 0, tv_nsec: 0 };
    // SAFETY: pt is the pthread_t of a thread that has not been joined yet (the job thread is joined
    // only after CUR_PTHREAD is cleared); both calls only write into the local variables.
    unsafe {
        if libc::pthread_getcpuclockid(pt as libc::pthread_t, &mut clk) != 0 {
            return None;
        }
        if libc::clock_gettime(clk, &mut ts) != 0 {
            return None;
        }
    }
    Some(ts.tv_sec as u64 * 1_000_000 + ts.tv_nsec as u64 / 1000)
}

fn thread_cpu_us() -> u64 {
    let mut ts = libc::timespec { tv_sec: 0, tv_nsec: 0 };
    // SAFETY: plain syscall wrapper writing into a local struct
    unsafe {
        libc::clock_gettime(libc::CLOCK_THREAD_CPUTIME_ID, &mut ts);
    }
    ts.tv_sec as u64 * 1_000_000 + ts.tv_nsec as u64 / 1000
}

/// Run one repetition; returns the JSON fragment describing the outcome.
fn run_once(job: &Job) -> String {
    verif::reset();
    PANIC_INFO.with(|p| *p.borrow_mut() = None);
    let t0 = thread_cpu_us();
    let res = panic::catch_unwind(panic::AssertUnwindSafe(|| match job.api.as_str() {
        "str" => match String::from_utf8(job.input.clone()) {
            Ok(s) => (
                Some(svgdx::transform_str(s, &job.cfg).map(|o| o.into_bytes())),
                None,
            ),
            Err(_) => (None, None),
        },
        "stream" => {
            let mut r = std::io::Cursor::new(&job.input[..]);
            let mut w: Vec<u8> = Vec::new();
            let res = svgdx::transform_stream(&mut r, &mut w, &job.cfg);
            (Some(res.map(|_| w)), None)
        }
        // a history on ONE thread through the string API: the input holds several documents separated by two RS bytes; all are
        // transformed in order on this thread, the result of the last one is reported (state kept per thread would show there)
        "strseq" => {
            let mut last = None;
            for part in job.input.split(|b| *b == 0x1e).filter(|p| !p.is_empty()) {
                last = match String::from_utf8(part.to_vec()) {
                    Ok(s) => Some(svgdx::transform_str(s, &job.cfg).map(|o| o.into_bytes())),
                    Err(_) => None,
                };
            }
            (last, None)
        }
        // the stream API into a sink that accepts only a few bytes per write() call, as a pipe or a line-buffered
        // stdout may: a conforming Write implementation, so everything must still arrive
        "streamshort" => {
            struct Short(Vec<u8>);
            impl std::io::Write for Short {
                fn write(&mut self, buf: &[u8]) -> std::io::Result<usize> {
                    let n = buf.len().min(7);
                    self.0.extend_from_slice(&buf[..n]);
                    Ok(n)
                }
                fn flush(&mut self) -> std::io::Result<()> {
                    Ok(())
                }
            }
            let mut r = std::io::Cursor::new(&job.input[..]);
            let mut w = Short(Vec::new());
            let res = svgdx::transform_stream(&mut r, &mut w, &job.cfg);
            (Some(res.map(|_| w.0)), None)
        }
        _ => {
            let (res, probe) = verif::transform_probe(&job.input, &job.cfg);
            (Some(res), Some(probe))
        }
    }));
    let cpu = thread_cpu_us().saturating_sub(t0);
    let c = verif::counters();
    let ctr = format!(
        "\"ctr\":{{\"elem_evals\":{},\"retry_passes\":{},\"loop_iters\":{},\"rng_draws\":{},\"expr_evals\":{},\"expr_depth_max\":{},\"depth_max\":{},\"scanner_steps\":{},\"scanner_stalls\":{}}},\"cpu_us\":{}",
        c.elem_evals, c.retry_passes, c.loop_iters, c.rng_draws, c.expr_evals, c.expr_depth_max, c.depth_max, c.scanner_steps, c.scanner_stalls, cpu
    );
    match res {
        Err(_) => {
            let (loc, msg) = PANIC_INFO
                .with(|p| p.borrow_mut().take())
                .unwrap_or(("?".into(), "?".into()));
            format!(
                "\"panic\":{{\"loc\":{},\"msg\":{}}},{}",
                json_str(&loc),
                json_str(&msg),
                ctr
            )
        }
        Ok((None, _)) => format!("\"skip\":\"not-utf8\",{}", ctr),
        Ok((Some(r), probe)) => {
            let probe_s = match probe {
                Some(p) => format!(
                    ",\"probe\":{{\"scope_stack\":{},\"element_stack\":{},\"current_depth\":{},\"in_specs\":{},\"real_svg\":{}}}",
                    p.scope_stack, p.element_stack, p.current_depth, p.in_specs, p.real_svg
                ),
                None => String::new(),
            };
            match r {
                Ok(out) => format!("\"ok\":true,\"out\":\"{}\"{},{}", hex(&out), probe_s, ctr),
                Err(e) => {
                    let kind = format!("{:?}", e);
                    let kind = kind
                        .split(|c: char| !c.is_alphanumeric())
                        .next()
                        .unwrap_or("")
                        .to_string();
                    format!(
                        "\"ok\":false,\"err\":{},\"kind\":{}{},{}",
                        json_str(&e.to_string()),
                        json_str(&kind),
                        probe_s,
                        ctr
                    )
                }
            }
        }
    }
}

fn emit(out: &Mutex<std::io::Stdout>, line: &str) {
    let mut o = out.lock().unwrap();
    let _ = o.write_all(line.as_bytes());
    let _ = o.write_all(b"\n");
    let _ = o.flush();
}

fn run_job_on_thread(job: Job, out: Arc<Mutex<std::io::Stdout>>, t_origin: Instant) {
    let stack = job.stack_kib * 1024;
    let id = job.id.clone();
    emit(
        &out,
        &format!(
            "{{\"ev\":\"call\",\"id\":{},\"t\":{}}}",
            json_str(&id),
            t_origin.elapsed().as_micros()
        ),
    );
    let out2 = out.clone();
    // thread creation can fail transiently under the address-space limit the worker runs with: retry, then report a
    // harness error for this job (never a verdict)
    let job = Arc::new(job);
    let mut spawned = None;
    for attempt in 0..200 {
        let job = job.clone();
        match std::thread::Builder::new().stack_size(stack).spawn(move || {
            let mut results = Vec::new();
            for _ in 0..job.repeat.max(1) {
                results.push(run_once(&job));
            }
            results
        }) {
            Ok(h) => {
                spawned = Some(h);
                break;
            }
            Err(_) => std::thread::sleep(Duration::from_millis(5 + attempt)),
        }
    }
    let h = match spawned {
        Some(h) => h,
        None => {
            emit(&out2, &format!("{{\"ev\":\"error\",\"id\":{},\"msg\":\"could not create the job thread\"}}", json_str(&id)));
            return;
        }
    };
    {
        use std::os::unix::thread::JoinHandleExt;
        CUR_PTHREAD.store(h.as_pthread_t() as u64, Ordering::Release);
    }
    // wait for the job without joining (the watchdog may still query the thread's CPU clock)
    while !h.is_finished() {
        std::thread::sleep(Duration::from_micros(50));
    }
    CUR_PTHREAD.store(0, Ordering::Release);
    let results = h.join().unwrap_or_else(|_| vec!["\"panic\":{\"loc\":\"thread\",\"msg\":\"join failed\"}".into()]);
    let t = t_origin.elapsed().as_micros();
    for (i, r) in results.iter().enumerate() {
        emit(
            &out2,
            &format!("{{\"ev\":\"ret\",\"id\":{},\"rep\":{},\"t\":{},{}}}", json_str(&id), i, t, r),
        );
    }
}

fn main() {
    // panic hook: remember location + message, print nothing
    panic::set_hook(Box::new(|info| {
        let loc = info
            .location()
            .map(|l| format!("{}:{}:{}", l.file(), l.line(), l.column()))
            .unwrap_or_else(|| "?".into());
        let msg = if let Some(s) = info.payload().downcast_ref::<&str>() {
            s.to_string()
        } else if let Some(s) = info.payload().downcast_ref::<String>() {
            s.clone()
        } else {
            "?".into()
        };
        // when the panic is raised inside std/core, name the first svgdx frame instead
        let mut loc = loc;
        if !loc.contains("/repo/src/") && !loc.starts_with("src/") {
            let bt = std::backtrace::Backtrace::force_capture().to_string();
            let mut fname = String::new();
            for l in bt.lines() {
                let l = l.trim();
                if let Some(rest) = l.strip_prefix("at ") {
                    if rest.contains("/repo/src/") && !rest.contains("/repo/src/verif.rs") {
                        loc = format!("{} [{}] via {}", rest, fname, loc);
                        break;
                    }
                } else if let Some((_, f)) = l.split_once(": ") {
                    fname = f.to_string();
                }
            }
        }
        PANIC_INFO.with(|p| *p.borrow_mut() = Some((loc, msg)));
    }));

    let wall_s: u64 = std::env::var("VERIF_WALL_S").ok().and_then(|v| v.parse().ok()).unwrap_or(120);
    let out = Arc::new(Mutex::new(std::io::stdout()));
    let t_origin = Instant::now();

    // watchdog: logical-step budget (verdict) and generous wall clock (inconclusive)
    {
        let out = out.clone();
        let mut last_seq = 0u64;
        let mut last_progress = 0u64;
        let mut last_progress_cpu = 0u64;
        std::thread::spawn(move || loop {
            std::thread::sleep(Duration::from_millis(20));
            if !CUR_ACTIVE.load(Ordering::Acquire) {
                continue;
            }
            let evals = verif::ELEM_EVALS_TOTAL.load(Ordering::Relaxed);
            let exprs = verif::EXPR_EVALS_TOTAL.load(Ordering::Relaxed);
            // stall detection on CPU time (not wall clock): the job thread keeps burning CPU but reaches no hook at all
            let pt = CUR_PTHREAD.load(Ordering::Acquire);
            if pt != 0 {
                let seq = CUR_JOB.load(Ordering::Relaxed);
                let progress = evals
                    .wrapping_add(exprs)
                    .wrapping_add(verif::OTHER_STEPS_TOTAL.load(Ordering::Relaxed));
                if let Some(cpu) = other_thread_cpu_us(pt) {
                    if seq != last_seq || progress != last_progress {
                        last_seq = seq;
                        last_progress = progress;
                        last_progress_cpu = cpu;
                    } else if cpu.saturating_sub(last_progress_cpu) > CUR_STALL_MS.load(Ordering::Relaxed) * 1000 {
                        emit(
                            &out,
                            &format!("{{\"ev\":\"stall\",\"seq\":{seq},\"cpu_ms_without_progress\":{},\"elem_evals\":{evals},\"expr_evals\":{exprs}}}", cpu.saturating_sub(last_progress_cpu) / 1000),
                        );
                        std::process::exit(87);
                    }
                }
            }
            let max = CUR_MAX_EVALS.load(Ordering::Relaxed);
            let job = CUR_JOB.load(Ordering::Relaxed);
            if max > 0 && (evals > max || exprs > max.saturating_mul(64)) {
                emit(
                    &out,
                    &format!("{{\"ev\":\"blowup\",\"seq\":{job},\"elem_evals\":{evals},\"expr_evals\":{exprs},\"max\":{max}}}"),
                );
                std::process::exit(88);
            }
            let started = CUR_START_MS.load(Ordering::Relaxed);
            let now = t_origin.elapsed().as_millis() as u64;
            if now.saturating_sub(started) > wall_s * 1000 {
                emit(
                    &out,
                    &format!("{{\"ev\":\"wallclock\",\"seq\":{job},\"elem_evals\":{evals},\"expr_evals\":{exprs},\"wall_s\":{wall_s}}}"),
                );
                std::process::exit(89);
            }
        });
    }

    let stdin = std::io::stdin();
    let mut seq: u64 = 0;
    let mut lines = stdin.lock().lines();
    while let Some(Ok(line)) = lines.next() {
        let line = line.trim_end().to_string();
        if line.is_empty() {
            continue;
        }
        if let Some(n) = line.strip_prefix("THREADS ") {
            let n: usize = n.trim().parse().unwrap_or(4);
            let mut jobs = Vec::new();
            for l in lines.by_ref() {
                let l = l.unwrap_or_default();
                let l = l.trim_end();
                if l == "END" {
                    break;
                }
                match parse_job(l) {
                    Ok(j) => jobs.push(j),
                    Err(e) => emit(&out, &format!("{{\"ev\":\"error\",\"msg\":{}}}", json_str(&e))),
                }
            }
            let queue = Arc::new(Mutex::new(jobs.into_iter().rev().collect::<Vec<_>>()));
            let mut hs = Vec::new();
            for _ in 0..n {
                let queue = queue.clone();
                let out = out.clone();
                hs.push(std::thread::spawn(move || loop {
                    let j = queue.lock().unwrap().pop();
                    match j {
                        Some(j) => run_job_on_thread(j, out.clone(), t_origin),
                        None => break,
                    }
                }));
            }
            for h in hs {
                let _ = h.join();
            }
            emit(&out, "{\"ev\":\"batch-end\"}");
            continue;
        }
        if line.starts_with("JOB ") {
            match parse_job(&line) {
                Ok(j) => {
                    seq += 1;
                    verif::ELEM_EVALS_TOTAL.store(0, Ordering::Relaxed);
                    verif::EXPR_EVALS_TOTAL.store(0, Ordering::Relaxed);
                    CUR_JOB.store(seq, Ordering::Relaxed);
                    CUR_MAX_EVALS.store(j.max_evals, Ordering::Relaxed);
                    // stall budget: 20 CPU-seconds, more for very large inputs ((len/1000)^2 ms)
                    let kb = (j.input.len() / 1000) as u64;
                    let base: u64 = std::env::var("VERIF_STALL_MS").ok().and_then(|v| v.parse().ok()).unwrap_or(20_000);
                    CUR_STALL_MS.store(base.max(kb * kb), Ordering::Relaxed);
                    verif::OTHER_STEPS_TOTAL.store(0, Ordering::Relaxed);
                    CUR_START_MS.store(t_origin.elapsed().as_millis() as u64, Ordering::Relaxed);
                    CUR_ACTIVE.store(true, Ordering::Release);
                    run_job_on_thread(j, out.clone(), t_origin);
                    CUR_ACTIVE.store(false, Ordering::Release);
                }
                Err(e) => emit(&out, &format!("{{\"ev\":\"error\",\"msg\":{}}}", json_str(&e))),
            }
            continue;
        }
        emit(&out, &format!("{{\"ev\":\"error\",\"msg\":{}}}", json_str(&format!("unknown command: {}", &line[..line.len().min(40)]))));
    }
}
