#!/bin/bash
# usage: tools/run_all.sh <quick|thorough> [seed ...]   -- runs every check at the given tier and seeds, prints one summary line each
cd "$(dirname "$0")/.." || exit 2
tier=${1:-quick}; shift
seeds=${*:-1}
rc_all=0
for s in $seeds; do
  for c in C01 C02 C03 C04 C05 C06 C07 C08 C09 C10 C11 C12 C13 C14 C15 C16 C17 C18 C19 C20; do
    out=$(VERIF_SEED=$s ./check $c $tier 2>&1); rc=$?
    echo "seed=$s rc=$rc $(echo "$out" | grep -E "^$c $tier" | tail -1)"
    echo "$out" | grep -E "^VIOLATION|^  signature|NOTE shard" | cut -c1-300
    [ $rc -ne 0 ] && rc_all=1
  done
done
exit $rc_all
