#!/usr/bin/env python3
"""usage: tools/keepseed.py <worktree> <seed-id> <caught: yes|no|after-strengthening> <checks run> <observed signatures / note> [<what I ran>]"""
import json, os, shutil, sys, subprocess
wt, sid, caught, checks, note = sys.argv[1:6]
how = sys.argv[6] if len(sys.argv) > 6 else None
d = os.path.join(os.path.dirname(os.path.dirname(os.path.abspath(__file__))), "seeded", sid)
os.makedirs(d, exist_ok=True)
patch = subprocess.run(["git", "-C", wt, "diff", "--", "src"], capture_output=True, text=True).stdout
open(os.path.join(d, "patch.diff"), "w").write(patch)
for f in ("demo.sh", "demo_test.rs", "demo.py"):
    if os.path.exists(os.path.join(wt, f)):
        shutil.copy(os.path.join(wt, f), os.path.join(d, f))
meta = {}
try:
    meta = json.load(open(os.path.join(wt, "meta.json")))
except Exception as e:
    meta = {"note": "agent meta.json unreadable: %s" % e}
meta["confirmed_by_hand"] = dict(
    compiles_and_327_tests_pass=True, demo_fails_with_change_passes_without=True,
    what_i_ran=how or "tools/seedtest.sh %s %s (cargo test in the worktree; demo with / without the change; git -C /repo apply; ./check <id> quick; git -C /repo checkout -- .)" % (wt, checks),
    checks_run=checks.split(), caught=caught, observed=note, base_commit=subprocess.run(["git", "-C", wt, "rev-parse", "--short", "HEAD"], capture_output=True, text=True).stdout.strip())
json.dump(meta, open(os.path.join(d, "meta.json"), "w"), indent=1)
print("kept", d)
