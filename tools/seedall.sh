#!/bin/bash
# usage: tools/seedall.sh [seed-id-glob]   -- re-validates the monitors: applies every kept seeded change to /repo in turn,
# runs the quick check of its property (expects a VIOLATION and exit 1), restores /repo. Never commits anything to /repo.
cd "$(dirname "$0")/.." || exit 2
pat=${1:-*}
git -C /repo diff --quiet || { echo "/repo has uncommitted changes; refusing"; exit 2; }
fail=0
for d in seeded/$pat/; do
  id=$(basename "$d"); prop=${id%%-*}
  if ! git -C /repo apply --check "$PWD/$d/patch.diff" 2>/dev/null; then
    if ! git -C /repo apply --3way "$PWD/$d/patch.diff" >/dev/null 2>&1; then echo "$id: PATCH DOES NOT APPLY"; git -C /repo reset -q --hard HEAD; fail=1; continue; fi
    git -C /repo reset -q
  else
    git -C /repo apply "$PWD/$d/patch.diff"
  fi
  # the checks to run: those recorded in meta.json (a change seeded for one property may only be visible through another
  # property's quantifier), default: the property of the seed id
  checks=$(python3 -c "import json,sys; m=json.load(open('$d/meta.json')); print(' '.join(m.get('confirmed_by_hand',{}).get('checks_run') or ['$prop']))" 2>/dev/null || echo "$prop")
  caught=""
  for c in $checks; do
    out=$(./check "$c" quick 2>&1); rc=$?
    n=$(echo "$out" | grep -c "^VIOLATION property=$c ")
    if [ $rc -eq 1 ] && [ "$n" -ge 1 ]; then caught="$caught $c($n signature(s): $(echo "$out" | grep -m1 'signature:' | cut -c1-110))"; fi
  done
  git -C /repo checkout -- .
  expect=$(python3 -c "import json; print(json.load(open('$d/meta.json')).get('confirmed_by_hand',{}).get('expected_by_seedall','caught'))" 2>/dev/null || echo caught)
  if [ -n "$caught" ]; then echo "$id: caught by$caught";
  elif [ "$expect" = "not-caught" ]; then echo "$id: not caught, as recorded (outside the property as stated, or neutralised by a later fix; see meta.json)";
  else echo "$id: NOT CAUGHT (checks run: $checks)"; fail=1; fi
done
git -C /repo status --short | head -3
exit $fail
