#!/usr/bin/env python3
"""Regenerates the table of DESIGN.md §9 from seeded/*/meta.json (between the seedmatrix markers)."""
import glob, json, os, re
root = os.path.dirname(os.path.dirname(os.path.abspath(__file__)))
rows = []
for d in sorted(glob.glob(os.path.join(root, "seeded", "*"))):
    m = json.load(open(os.path.join(d, "meta.json")))
    c = m.get("confirmed_by_hand", {})
    def cell(t, n=260):
        t = " ".join(str(t).split()).replace("|", "\\|")
        return t if len(t) <= n else t[:n - 1] + "…"
    rows.append("| `%s` | %s | %s | %s | %s | %s |" % (os.path.basename(d), m.get("property"), cell(m.get("summary", ""), 300), cell(m.get("needs_to_manifest", ""), 240),
                                                 c.get("caught", "?"), cell(c.get("observed", ""), 300)))
tab = ("| seeded change | property | what it does | needs to manifest | caught by quick tier | what the check reported |\n|---|---|---|---|---|---|\n" + "\n".join(rows))
n_yes = sum(1 for r in rows if "| yes |" in r)
n_after = sum(1 for r in rows if "| after-strengthening |" in r)
n_no = len(rows) - n_yes - n_after
tab += "\n\n%d changes: %d caught as the checks stood, %d missed at first and caught after the check was strengthened (what was added is in the last column), %d not caught (each explained in its row: the change does not violate the property as stated).\n" % (len(rows), n_yes, n_after, n_no)
p = os.path.join(root, "DESIGN.md")
s = open(p).read()
b, e = "<!-- seedmatrix:begin -->", "<!-- seedmatrix:end -->"
if b not in s:
    s = s.replace("(filled in below as the changes are confirmed)", b + "\n" + e)
s = re.sub(re.escape(b) + r".*?" + re.escape(e), lambda _: b + "\n" + tab + "\n" + e, s, flags=re.S)
open(p, "w").write(s)
print(len(rows), "rows")
