#!/usr/bin/env python3
import json,sys
for f in sys.argv[1:]:
    r=json.load(open(f))
    c=r['case']
    print('=====',r['signature'],'|',r.get('what','')[:200])
    inp=c.get('input'); 
    if isinstance(inp,dict): inp=inp.get('utf8',inp)
    print(inp[:1500] if inp else None)
    if 'element' in c: print('ELEMENT', c['element'], c.get('els',{}).get(c['element']))
    print('OBS', json.dumps(r.get('observed'))[:800])
    print('EXP', json.dumps(r.get('expected'))[:800])
