#!/bin/bash
# usage: tools/seedtest.sh <worktree> <check> [<check> ...]
# 1. confirms in the worktree: tests pass with the change; the demonstration fails with it and passes without
# 2. applies the patch to /repo, runs the given quick checks, restores /repo
WT=$1; shift
set -u
cd "$WT" || exit 2
echo "== patch"; git diff --stat -- src | tail -3
echo "== tests with the change"; cargo test --workspace --no-fail-fast --offline 2>&1 | grep -E "^test result|FAILED|error(\[|:)" | head -8
if [ -f demo.sh ]; then
  echo "== demo WITH change"; (bash demo.sh > /tmp/demo_with.log 2>&1; echo "exit=$?"; tail -3 /tmp/demo_with.log)
  git diff -- src > /tmp/seed_patch.diff
  git apply -R /tmp/seed_patch.diff
  echo "== demo WITHOUT change"; (bash demo.sh > /tmp/demo_without.log 2>&1; echo "exit=$?"; tail -3 /tmp/demo_without.log)
  git apply /tmp/seed_patch.diff
fi
cd /repo || exit 2
if ! git apply --check "$WT/patch.diff" 2>/dev/null; then (cd "$WT"; git diff -- src > /tmp/seed_patch.diff); P=/tmp/seed_patch.diff; else P="$WT/patch.diff"; fi
if ! git apply "$P" 2>/dev/null; then
  git apply --3way "$P" >/dev/null 2>&1 && git reset -q || { echo "PATCH DOES NOT APPLY (even with --3way)"; git reset -q --hard HEAD; exit 3; }
  echo "(applied with --3way)"; cargo build --offline 2>&1 | grep -E "^error" -A5 | head -10
fi
echo "== applied to /repo: $(git diff --stat | tail -1)"
cd /verif
for c in "$@"; do
  ./check $c quick 2>&1 | grep -E "VIOLATION|signature|INCONC|^C[0-9]+ quick" | cut -c1-260 | head -12
done
cd /repo && git checkout -- . && git status --short | head -3
