#!/bin/bash
# usage: tools/seedpar.sh <worktree> <check> [<check> ...]
# Like seedtest.sh but never touches /repo, so several changes can be evaluated at the same time:
# 1. confirms in the worktree: tests pass with the change; the demonstration fails with it and passes without
# 2. runs the given quick checks from a scratch copy of /verif with VERIF_REPO=<worktree> (build directories per checkout)
WT=$1; shift
set -u
ID=$(basename "$WT")
LOG=/tmp/seedpar_$ID
cd "$WT" || exit 2
echo "== patch"; git diff --stat -- src | tail -3
echo "== tests with the change"; cargo test --workspace --no-fail-fast --offline 2>&1 | grep -E "^test result|FAILED|error(\[|:)" | head -8
if [ -f demo.sh ]; then
  echo "== demo WITH change"; (bash demo.sh > ${LOG}_with.log 2>&1; echo "exit=$?"; tail -3 ${LOG}_with.log)
  git diff -- src > ${LOG}_patch.diff
  git apply -R ${LOG}_patch.diff
  echo "== demo WITHOUT change"; (bash demo.sh > ${LOG}_without.log 2>&1; echo "exit=$?"; tail -3 ${LOG}_without.log)
  git apply ${LOG}_patch.diff
fi
EV=/tmp/seedpar_verif_$ID
rm -rf "$EV"; mkdir -p "$EV"
rsync -a --exclude .git --exclude .target --exclude scratch --exclude replays --exclude seeded --exclude notes /verif/ "$EV"/
mkdir -p /verif/.target; ln -s /verif/.target "$EV"/.target
cd "$EV" || exit 2
for c in "$@"; do
  VERIF_REPO="$WT" ./check $c quick 2>&1 | grep -E "VIOLATION|signature|INCONC|^C[0-9]+ quick" | cut -c1-260 | head -12
done
