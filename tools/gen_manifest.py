#!/usr/bin/env python3
"""Regenerate /verif/MANIFEST.json from the property modules that exist."""
import importlib, json, os, subprocess, sys
HERE = os.path.dirname(os.path.dirname(os.path.abspath(__file__)))
sys.path.insert(0, HERE)
props = [json.loads(l) for l in open(os.path.join(HERE, "properties.jsonl"))]
checks, na = [], []
for p in props:
    pid = p["id"]
    try:
        m = importlib.import_module("monitors." + pid.lower())
    except ImportError:
        na.append(dict(property_id=pid, reason="check not built yet in this revision of /verif (planned: DESIGN.md section 4, %s)" % pid))
        continue
    checks.append(dict(
        property_id=pid,
        quick_cmd="./check %s quick" % pid,
        thorough_cmd="./check %s thorough" % pid,
        evidence_file="evidence/%s.json" % pid,
        replay_cmd_template="./check replay {path}",
        engine="worker+monitors/%s.py" % pid.lower(),
        level_claimed=dict(category=m.LEVEL, text=m.LEVEL_TEXT, design_ref="DESIGN.md section 4, " + pid),
        level_note=m.LEVEL_NOTE,
        technique=m.TECHNIQUE,
    ))
hooks_commits = subprocess.run(["git", "-C", "/repo", "log", "--format=%H", "--grep=^verif:"], capture_output=True, text=True).stdout.split()
man = dict(
    version=1,
    setup_cmd="./setup.sh",
    hooks=dict(
        guard="verif-hooks",
        enable="cargo feature: harness/Cargo.toml depends on svgdx = { path = \"/repo\", default-features = false, features = [\"verif-hooks\"] }",
        baseline_off_cmd="cd /repo && cargo test --workspace --no-fail-fast --offline",
        source_commits=hooks_commits,
        add_only=True,
    ),
    engines=[
        dict(name="worker", path="harness/", serves_properties=[c["property_id"] for c in checks],
             kind_free_text="Rust worker linking /repo with hooks on: runs the real library one job per thread (explicit stack size, catch_unwind, panic hook), emits a call/return event log with hook counters and an end-of-transform context probe; watchdog decides blow-ups on hook counters"),
        dict(name="frontends", path="monitors/frontends.py", serves_properties=["C01", "C07"],
             kind_free_text="drivers for the release svgdx and svgdx-server binaries built from /repo with hooks off"),
        dict(name="xmlcanon", path="monitors/xmlcanon.py", serves_properties=["C02", "C03", "C04", "C05", "C16", "C18", "C19", "C20"],
             kind_free_text="independent expat-based XML reader: canonical event lists / trees"),
        dict(name="monitors", path="monitors/", serves_properties=[c["property_id"] for c in checks],
             kind_free_text="Python generators, reference models, twin translators and oracles; evidence + known-findings matching in monitors/core.py"),
    ],
    checks=checks,
    not_applicable=na,
    notes="Runtime monitoring only: every verdict comes from an oracle observing executions of the real code. exit 0 held / exit 1 VIOLATION / exit 2 INCONCLUSIVE. Known findings: known_findings.json.",
)
json.dump(man, open(os.path.join(HERE, "MANIFEST.json"), "w"), indent=1)
print("claimed:", [c["property_id"] for c in checks], "not yet:", [n["property_id"] for n in na])
