#!/bin/sh
# Build the framework from files on disk only (offline): the hook-enabled worker and the
# shipped front-end binaries, both from /repo's current working tree, into /verif/.target.
set -e
cd "$(dirname "$0")"
export CARGO_NET_OFFLINE=true
cp /repo/Cargo.lock harness/Cargo.lock
CARGO_TARGET_DIR="$PWD/.target/harness" cargo build --release --offline --manifest-path harness/Cargo.toml
CARGO_TARGET_DIR="$PWD/.target/fe" cargo build --release --offline --bins --manifest-path /repo/Cargo.toml
mkdir -p scratch evidence replays
echo "setup ok"
