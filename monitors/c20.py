"""C20 Auto-styles are self-consistent, minimal and leave author styles alone.

Bounded-exhaustive vocabulary (every reserved class alone x 6 themes) + random subsets on mixed elements x background /
font / local-style settings, with author <style>/<defs> present. Oracle: CSS selectors and url(#..) references are
extracted from the injected <style> CDATA and <defs> by a small tokenizer; closure and minimality are checked generically
(the oracle has the documented vocabulary and SVG's colour keywords, not svgdx's rule table)."""
import re

from . import core, xmlcanon

LEVEL = "exploration"
TECHNIQUE = "generic closure/minimality checker over the emitted CSS and definitions (tokenizer + reference counting), driven by a bounded-exhaustive sweep of the documented class vocabulary"
LEVEL_TEXT = ("Held on the executions observed: every class of the documented vocabulary (148 colours x 4 prefixes, text styles and sizes, "
              "outline and stroke widths, arrows, flow speeds, dashes, 6 pattern families plain and with N = 1..100, shadows, d-surround) "
              "alone under each of the 6 themes, plus ~2e4 random subsets x configurations: a rule existed for every used class, no rule "
              "or definition was emitted for an unused class, every url(#id) had exactly one emitted definition, author <style>/<defs> "
              "were intact, and nothing was injected with auto-styles off or into fragments. The vocabulary part is exhaustive.")
LEVEL_NOTE = ("Trusted: the CSS tokenizer; the vocabulary list (docs/mdbook/src/reference/styles.md + SVG 1.1 colour keywords). The 'if' direction is "
              "only demanded where a class sits on an element type the documentation says it applies to (text classes on text, "
              "arrows on lines ...). Pattern suffixes above 100 are unreserved and must produce no rule.")
BUDGET_S = {"quick": 150, "thorough": 1500}
FLOOR = {"quick": 200, "thorough": 5000}
RULE = ("documents: one reserved class on a rect+text, a line, a polyline and a text element (vocabulary sweep, exhaustive x 6 themes) and random "
        "subsets of 2..12 classes on mixed elements; non-trivial = >= 1 reserved class in use; distinct by hash(document, config)")
ASSUMPTIONS = ["rules are matched by the class tokens (.d-xxx) in their selectors"]

COLOURS = """aliceblue antiquewhite aqua aquamarine azure beige bisque black blanchedalmond blue blueviolet brown burlywood cadetblue chartreuse
chocolate coral cornflowerblue cornsilk crimson cyan darkblue darkcyan darkgoldenrod darkgray darkgreen darkgrey darkkhaki darkmagenta darkolivegreen
darkorange darkorchid darkred darksalmon darkseagreen darkslateblue darkslategray darkslategrey darkturquoise darkviolet deeppink deepskyblue dimgray
dimgrey dodgerblue firebrick floralwhite forestgreen fuchsia gainsboro ghostwhite gold goldenrod gray grey green greenyellow honeydew hotpink indianred
indigo ivory khaki lavender lavenderblush lawngreen lemonchiffon lightblue lightcoral lightcyan lightgoldenrodyellow lightgray lightgreen lightgrey
lightpink lightsalmon lightseagreen lightskyblue lightslategray lightslategrey lightsteelblue lightyellow lime limegreen linen magenta maroon
mediumaquamarine mediumblue mediumorchid mediumpurple mediumseagreen mediumslateblue mediumspringgreen mediumturquoise mediumvioletred midnightblue
mintcream mistyrose moccasin navajowhite navy oldlace olive olivedrab orange orangered orchid palegoldenrod palegreen paleturquoise palevioletred
papayawhip peachpuff peru pink plum powderblue purple red rosybrown royalblue saddlebrown salmon sandybrown seagreen seashell sienna silver skyblue
slateblue slategray slategrey snow springgreen steelblue tan teal thistle tomato turquoise violet wheat white whitesmoke yellow yellowgreen none""".split()
TEXT_STYLE = ["d-text-smallest", "d-text-smaller", "d-text-small", "d-text-medium", "d-text-large", "d-text-larger", "d-text-largest",
              "d-text-monospace", "d-text-italic", "d-text-bold", "d-text-pre",
              # font-weight classes that themes.rs reserves next to d-text-bold ('normal' exists because a theme may change the default weight)
              "d-text-normal", "d-text-light"]
TEXT_OL = ["d-text-ol", "d-text-ol-thinner", "d-text-ol-thin", "d-text-ol-medium", "d-text-ol-thick", "d-text-ol-thicker"]
STROKE = ["d-thinner", "d-thin", "d-thick", "d-thicker"]
LINE = ["d-dot", "d-dash", "d-flow", "d-flow-slower", "d-flow-slow", "d-flow-fast", "d-flow-faster", "d-flow-rev"]
ARROW = ["d-arrow", "d-biarrow"]
SHADOW = ["d-softshadow", "d-hardshadow"]
PATTERN_FAMILIES = ["d-grid", "d-stipple", "d-hatch", "d-crosshatch"]
THEMES = ["default", "bold", "fine", "glass", "light", "dark"]


def vocabulary(quick):
    v = []
    for c in COLOURS:
        for p in ("d-", "d-fill-", "d-text-", "d-text-ol-"):
            if c == "none" and p in ("d-text-", "d-text-ol-"):
                continue
            v.append(p + c)
    v += TEXT_STYLE + TEXT_OL + STROKE + LINE + ARROW + SHADOW
    for f in PATTERN_FAMILIES:
        v.append(f)
        for n in (range(1, 101) if not quick else [1, 2, 3, 5, 7, 9, 10, 11, 20, 25, 33, 50, 64, 75, 99, 100]):
            v.append("%s-%d" % (f, n))
    return v


def lookalikes(quick):
    """class names that are NOT in the documented vocabulary but sit next to it: implemented-but-undocumented pattern
    families (d-grid-h, d-grid-v), names that share a prefix or a numeric suffix with a reserved family, out-of-range sizes.
    No rule is owed for them; the closure / uniqueness / minimality clauses apply to whatever is emitted for them."""
    v = ["d-grid-h", "d-grid-v", "d-grid-0", "d-grid-101", "d-grid-007", "d-grid-", "d-grid--5", "d-grid-5-5", "d-hatch-0", "d-stipple-1000",
         "d-hatched", "d-grid5", "d-crosshatch-h-5", "d-stipple-x-3", "d-grid-foo-7", "d-text-biggerer", "d-fill-", "d-fill-notacolour",
         "d-text-ol-none", "d-softshadow-2", "d-arrow-2", "d-flow-fastest", "mine", "d-notreserved-xyz", "D-RED", "d-Red"]
    for f in ("d-grid-h", "d-grid-v"):
        for n in ([1, 3, 5, 10, 50, 100, 101] if quick else list(range(0, 102))):
            v.append("%s-%d" % (f, n))
    return v


LOOKALIKES = lookalikes(False)


def sweep_doc_text_only(cls, k):
    """the class on a <text> that svgdx passes through (coordinate list / unit length / mixed content), nothing else in the document"""
    t = ['<text x="2 8 14" y="5" class="%s">abc</text>', '<text x="1em" y="2" class="%s">unit</text>', '<text x="1" y="2" class="%s">a <tspan>b</tspan></text>'][k % 3]
    return "<svg>\n  " + (t % cls) + "\n</svg>"


def sweep_doc(cls):
    return ('<svg>\n  <rect xy="0 0" wh="20 10" class="%s" text="t"/>\n  <line xy1="0 20" xy2="20 20" class="%s"/>\n'
            '  <polyline points="0 30 10 35 20 30" class="%s"/>\n  <text xy="5 45" class="%s" text="x"/>\n</svg>') % (cls, cls, cls, cls)


# ------------------------------------------------------------------------------------------------
# CSS tokenizer

def css_rules(css):
    """flat list of (selector text, declaration text) including rules nested inside blocks"""
    out = []
    i, n = 0, len(css)
    while i < n:
        j = css.find("{", i)
        if j < 0:
            break
        sel = css[i:j].strip()
        depth, k = 1, j + 1
        while k < n and depth:
            if css[k] == "{":
                depth += 1
            elif css[k] == "}":
                depth -= 1
            k += 1
        body = css[j + 1:k - 1]
        if "{" in body:
            out.append((sel, ""))
            out += css_rules(body)
        else:
            out.append((sel, body))
        i = k
    return out


CLASS_TOKEN = re.compile(r"\.(d-[A-Za-z0-9_-]+)")
URL_REF = re.compile(r"url\(\s*#([^)\s]+)\s*\)")


def analyse(out, author_marker):
    """returns dict(injected_styles, injected_defs, rules, def_ids, urls, used_classes, author_ok...)"""
    root = xmlcanon.parse_tree(out, fragment=True)
    tops = root.elements()
    svg = tops[0] if tops and tops[0].name == "svg" else None
    scope = svg if svg is not None else root
    styles = [e for e in scope.iter() if e.name == "style"]
    defs = [e for e in scope.iter() if e.name == "defs"]
    inj_styles = [e for e in styles if author_marker not in e.all_text()]
    inj_defs = [e for e in defs if not any(c.attrs.get("id", "").startswith("author") for c in c_iter(e))]
    css = "\n".join(e.all_text() for e in inj_styles)
    rules = css_rules(css)
    def_ids = []
    def_urls = []
    for d in inj_defs:
        for c in d.elements():
            if "id" in c.attrs:
                def_ids.append(c.attrs["id"])
        for c in c_iter(d):
            for v in c.attrs.values():
                def_urls += URL_REF.findall(v)
    used = set()
    for e in scope.iter():
        if e.name in ("style",):
            continue
        inside_inj = False
        p = e
        while p is not None:
            if p in inj_defs:
                inside_inj = True
            p = p.parent
        if inside_inj:
            continue
        used.update(e.classes())
    return dict(svg=svg, inj_styles=inj_styles, inj_defs=inj_defs, rules=rules, css=css, def_ids=def_ids, def_urls=def_urls, used=used,
                n_styles=len(styles), n_defs=len(defs))


def c_iter(e):
    for c in e.elements():
        yield c
        yield from c_iter(c)


AUTHOR_STYLE = "rect.mine { fill: papayawhip; } /* AUTHOR-STYLE-MARKER */ .d-notreally { x: url(#author-grad); }"
AUTHOR_DEFS = '<linearGradient id="author-grad" x1="0" x2="1"><stop offset="0" stop-color="red"/><stop offset="1" stop-color="blue"/></linearGradient>'


def applicable(cls, elements_with_class):
    """is the class sitting on an element type the documentation says it applies to?"""
    names = elements_with_class
    if cls.startswith(("d-text-",)):
        return "text" in names
    if cls == "d-arrow":
        return bool(names & {"line", "polyline"})
    if cls.startswith(("d-fill-",)) or cls in SHADOW or cls.split("-")[1] in ("grid", "stipple", "hatch", "crosshatch"):
        return bool(names & {"rect", "circle", "ellipse", "polygon"})
    return bool(names & {"rect", "circle", "ellipse", "line", "polyline", "polygon", "path"})


def reserved_with_rule(cls):
    """is cls in the documented vocabulary (so a rule is owed when it is used)?"""
    m = re.match(r"^(d-(?:grid|stipple|hatch|crosshatch))-(\d+)$", cls)
    if m:
        return 1 <= int(m.group(2)) <= 100 and str(int(m.group(2))) == m.group(2)
    if cls in TEXT_STYLE or cls in TEXT_OL or cls in STROKE or cls in LINE or cls in ARROW or cls in SHADOW or cls in PATTERN_FAMILIES or cls == "d-surround":
        return True
    for p in ("d-text-ol-", "d-text-", "d-fill-", "d-"):
        if cls.startswith(p) and cls[len(p):] in COLOURS:
            return not (cls[len(p):] == "none" and p in ("d-text-", "d-text-ol-"))
    return False


def check_case(ctx, case):
    acc = ctx.acc
    acc.cases += 1
    cfg = case.get("cfg")
    r = ctx.run(case["input"], cfg)
    if r.crashed:
        acc.count("crashed(C01's business)")
        return
    if not r.ok:
        acc.violation("rejected", "rejected:" + str(r.kind), case, observed=core.trunc(r.err, 300), expected="Ok")
        return
    a = analyse(r.out, "AUTHOR-STYLE-MARKER")
    classes = case.get("classes", [])
    if classes:
        acc.nontriv(core.chash(case["input"], core.encode_cfg(cfg)), case.get("feats", []))
    expect_injection = case.get("root", True) and (cfg or {}).get("auto", True)
    n_author_styles, n_author_defs = case.get("author_styles", 0), case.get("author_defs", 0)
    if not expect_injection:
        if len(a["inj_styles"]) or len(a["inj_defs"]) or a["n_styles"] != n_author_styles or a["n_defs"] != n_author_defs:
            acc.violation("unwanted-injection", "injected-when-%s" % ("auto-styles-off" if case.get("root", True) else "fragment"), case,
                          observed=dict(styles=a["n_styles"], defs=a["n_defs"]), expected=dict(styles=n_author_styles, defs=n_author_defs),
                          what="style/defs injected although auto-styles are off or the document is a fragment")
        return
    # author content intact
    if n_author_styles:
        root = xmlcanon.parse_tree(r.out, fragment=True)
        auth = [e for e in root.iter() if e.name == "style" and "AUTHOR-STYLE-MARKER" in e.all_text()]
        if len(auth) != n_author_styles or any(e.all_text().strip() != AUTHOR_STYLE for e in auth):
            acc.violation("author-style-changed", "author-style-changed", case, observed=[e.all_text() for e in auth], expected=AUTHOR_STYLE)
    if n_author_defs:
        root = xmlcanon.parse_tree(r.out, fragment=True)
        grads = [e for e in root.iter() if e.attrs.get("id") == "author-grad"]
        ok = len(grads) == n_author_defs and all(g.parent is not None and g.parent.name == "defs" and len(g.elements()) == 2 and g.attrs.get("x2") == "1" for g in grads)
        if not ok:
            acc.violation("author-defs-changed", "author-defs-changed", case, observed=[repr(g) for g in grads], expected="author <defs> intact")
    rule_classes = {}
    for sel, body in a["rules"]:
        for c in CLASS_TOKEN.findall(sel):
            rule_classes.setdefault(c, []).append(sel)
    used = a["used"]
    # only-if: a rule for a reserved class only when some output element uses it
    for c, sels in sorted(rule_classes.items()):
        if c not in used:
            acc.violation("rule-without-use", "rule-for-unused-class:%s" % class_family(c), case, observed=dict(rule=sels[0], used_classes=sorted(used)), expected="no rule",
                          what="a rule for .%s was emitted but no output element carries that class" % c)
    # if: every documented class in use, on an applicable element, has a rule
    root = xmlcanon.parse_tree(r.out, fragment=True)
    holders = {}
    for e in root.iter():
        for c in e.classes():
            holders.setdefault(c, set()).add(e.name)
    for c in sorted(used):
        if reserved_with_rule(c) and applicable(c, holders.get(c, set())) and c not in rule_classes:
            acc.violation("use-without-rule", "no-rule-for-used-class:%s" % class_family(c), case, observed=dict(rules_for=sorted(rule_classes)), expected="a rule whose selector names .%s" % c,
                          what="class %s is used on %s but no emitted rule names it (theme %s)" % (c, sorted(holders.get(c, [])), (cfg or {}).get("theme", "default")))
        m = re.match(r"^(d-(?:grid|stipple|hatch|crosshatch|grid-h|grid-v))-(\d+)$", c)
        if m and int(m.group(2)) > 100 and c in rule_classes:
            acc.violation("rule-without-use", "rule-for-unreserved-pattern-size", case, observed=c, expected="no rule for N > 100")
    # url closure
    urls = set(URL_REF.findall(a["css"])) | set(a["def_urls"])
    for u in sorted(urls):
        if u.startswith("author"):
            continue
        n = a["def_ids"].count(u)
        if n != 1:
            acc.violation("url-closure", "url-without-single-definition:%s" % re.sub(r"\d+", "N", u), case, observed=dict(url=u, definitions=n, def_ids=a["def_ids"]), expected="exactly one definition",
                          what="url(#%s) is referenced by an emitted rule/definition but defined %d times" % (u, n))
    for d in a["def_ids"]:
        if d not in urls:
            acc.violation("definition-without-use", "definition-not-referenced:%s" % re.sub(r"\d+", "N", d), case, observed=dict(definition=d, urls=sorted(urls)), expected="referenced by an emitted rule",
                          what="definition #%s was emitted but nothing refers to it" % d)
    if len(set(a["def_ids"])) != len(a["def_ids"]):
        acc.violation("url-closure", "duplicate-definition", case, observed=a["def_ids"], expected="unique ids")


def class_family(c):
    m = re.match(r"^(d-(?:grid|stipple|hatch|crosshatch|grid-h|grid-v))(-\d+)?$", c)
    if m:
        return m.group(1) + ("-N" if m.group(2) else "")
    for p in ("d-text-ol-", "d-text-", "d-fill-", "d-"):
        if c.startswith(p) and c[len(p):] in COLOURS:
            return p + "<colour>"
    return c


def random_doc(rng, vocab):
    n = rng.randint(2, 12)
    classes = [rng.choice(vocab) for _ in range(n)]
    if rng.random() < 0.4:
        classes += rng.sample(LOOKALIKES, rng.randint(1, 3))
    if rng.random() < 0.3:
        classes += rng.sample(ARROW + SHADOW + PATTERN_FAMILIES + ["d-grid-5", "d-hatch-5", "d-flow", "d-flow-rev"], rng.randint(2, 4))
    lines = []
    shapes = ['<rect xy="%d 0" wh="8" class="%s"%s/>', '<circle cxy="%d 20" r="4" class="%s"%s/>', '<line xy1="%d 30" xy2="%d 38" class="%s"/>',
              '<polyline points="%d 40 5 45" class="%s"/>', '<text xy="%d 50" class="%s" text="w"/>', '<ellipse cxy="%d 60" rxy="4 2" class="%s"%s/>',
              '<path d="M%d 70 l5 5" class="%s"/>', '<polygon points="%d 80 5 85 0 85" class="%s"/>']
    used = []
    for i in range(rng.randint(1, 6)):
        cs = rng.sample(classes, rng.randint(1, min(4, len(classes))))
        used += cs
        tmpl = rng.choice(shapes)
        x = i * 10
        # class names are separated by white space: one blank, several, a tab, a line break (a wrapped class list), leading / trailing blanks
        joined = cs[0] + "".join(rng.choice([" ", " ", " ", "  ", "\t", "\n    ", " \t "]) + c for c in cs[1:])
        if rng.random() < 0.1:
            joined = rng.choice([" ", "\n"]) + joined + rng.choice(["", " "])
        if tmpl.startswith("<line"):
            lines.append("  " + tmpl % (x, x + 5, joined))
        elif tmpl.count("%s") == 2:
            lines.append("  " + tmpl % (x, joined, ' text="l"' if rng.random() < 0.5 else ""))
        else:
            lines.append("  " + tmpl % (x, joined))
    if rng.random() < 0.25:
        # an inner <svg> (an inset with its own viewport) among the elements: what follows it is still part of the document
        inner_cls = rng.sample(classes, rng.randint(1, min(2, len(classes))))
        used += inner_cls
        # (never first: a leading <svg> followed by siblings would be an ambiguous 'root')
        lines.insert(rng.randint(1, max(1, len(lines) - 1)),
                     '  <svg x="70" y="0" width="20" height="10" viewBox="0 0 40 20"><circle cx="20" cy="10" r="8" class="%s"/></svg>' % " ".join(inner_cls))
    author_styles = author_defs = 0
    if rng.random() < 0.4:
        lines.insert(rng.randint(0, len(lines)), "  <style>%s</style>" % AUTHOR_STYLE)
        author_styles = 1
    if rng.random() < 0.4:
        lines.insert(rng.randint(0, len(lines)), "  <defs>%s</defs>" % AUTHOR_DEFS)
        author_defs = 1
    if rng.random() < 0.15 and len(lines) >= 2:
        lines.append('  <rect surround="^" margin="2"/>')
        used.append("d-surround")
    root = rng.random() < 0.85
    doc = ("<svg>\n%s\n</svg>" % "\n".join(lines)) if root else "\n".join(lines)
    cfg = {}
    if rng.random() < 0.6:
        cfg["theme"] = rng.choice(THEMES)
    if rng.random() < 0.15:
        cfg["auto"] = False
    if rng.random() < 0.2:
        cfg["local"] = True
    if rng.random() < 0.2:
        cfg["bg"] = rng.choice(["white", "#123", "none"])
    if rng.random() < 0.2:
        cfg["ff"] = rng.choice(["serif", "monospace"])
    if rng.random() < 0.1:
        cfg["fs"] = 5.0
    if rng.random() < 0.1:
        cfg["debug"] = True
    return dict(input=doc.encode(), cfg=cfg or None, classes=sorted(set(used)), root=root, author_styles=author_styles, author_defs=author_defs,
                feats=sorted({class_family(c) for c in used} | {"theme." + (cfg.get("theme", "default"))} | ({"local-styles"} if cfg.get("local") else set())
                             | ({"author-style"} if author_styles else set()) | ({"author-defs"} if author_defs else set()) | ({"fragment"} if not root else set())
                             | ({"auto-off"} if cfg.get("auto") is False else set())))


def run_shard(ctx):
    acc = ctx.acc
    vocab = vocabulary(ctx.quick())
    k = 0
    for theme in THEMES:
        for cls in vocab:
            k += 1
            if not ctx.mine(k):
                continue
            if ctx.out_of_time():
                acc.notes.append("time budget reached in the vocabulary sweep at %d" % k)
                break
            case = dict(input=sweep_doc(cls).encode(), cfg=dict(theme=theme), classes=[cls], root=True, feats=[class_family(cls), "theme." + theme, "sweep"])
            check_case(ctx, case)
            if cls.startswith("d-text") and theme in ("default", "dark"):
                check_case(ctx, dict(input=sweep_doc_text_only(cls, k).encode(), cfg=dict(theme=theme), classes=[cls], root=True,
                                     feats=[class_family(cls), "theme." + theme, "sweep.text-passthrough"]))
            if k in (17, 900):
                acc.sample(dict(input=sweep_doc(cls), theme=theme))
    acc.count("vocabulary-size", len(vocab) if ctx.shard == 0 else 0)
    for theme in THEMES:
        for cls in lookalikes(ctx.quick()):
            k += 1
            if not ctx.mine(k) or ctx.out_of_time():
                continue
            check_case(ctx, dict(input=sweep_doc(cls).encode(), cfg=dict(theme=theme), classes=[cls], root=True, feats=["lookalike", "theme." + theme, "sweep"]))
    # pairs of classes that bring definitions (markers, filters, patterns) or share a rule: two classes may need the same
    # definition, which still has to be emitted once
    bearing = ARROW + SHADOW + PATTERN_FAMILIES + [f + "-5" for f in PATTERN_FAMILIES] + ["d-grid-h", "d-grid-v", "d-grid-10", "d-flow", "d-flow-rev", "d-dash"]
    for i, c1 in enumerate(bearing):
        for c2 in bearing[i + 1:]:
            for layout in ("same-element", "two-elements", "two-kinds"):
                for theme in ("default", "dark"):
                    k += 1
                    if not ctx.mine(k) or ctx.out_of_time():
                        continue
                    if layout == "same-element":
                        body = '  <line xy1="0 0" xy2="20 5" class="%s %s"/>\n  <rect xy="0 10" wh="8" class="%s %s"/>' % (c1, c2, c2, c1)
                    elif layout == "two-elements":
                        body = '  <line xy1="0 0" xy2="20 5" class="%s"/>\n  <line xy1="0 10" xy2="20 15" class="%s"/>' % (c1, c2)
                    else:
                        body = '  <rect xy="0 10" wh="8" class="%s"/>\n  <polyline points="0 30 10 35 20 30" class="%s"/>\n  <line xy1="0 0" xy2="20 5" class="%s"/>' % (c1, c2, c1)
                    check_case(ctx, dict(input=("<svg>\n%s\n</svg>" % body).encode(), cfg=dict(theme=theme), classes=[c1, c2], root=True,
                                         feats=[class_family(c1), class_family(c2), "pair." + layout, "theme." + theme]))
    rng = ctx.rng("subsets")
    full = vocabulary(False)
    n = 6000 if ctx.quick() else 150000
    for j in range(n):
        if ctx.out_of_time():
            acc.notes.append("time budget reached after %d subset docs" % j)
            break
        case = random_doc(rng, full)
        check_case(ctx, case)
        if j < 1:
            acc.sample(dict(input=case["input"].decode(), cfg=case["cfg"]))


def extra_coverage(acc, tier):
    return dict(exhaustive=False, vocabulary_exhaustive=(tier == "thorough"),
                explanation="thorough: every documented class (pattern sizes 1..100) x 6 themes is enumerated; quick: pattern sizes are sampled at 11 values; subsets are random")
