"""Core plumbing of the svgdx runtime-monitoring framework.

 * builds (worker with hooks on; release front-ends with hooks off) from /repo's working tree
 * Worker: a persistent worker process (the real library) driven over a pipe, call/return log,
   death / blow-up / watchdog attribution, automatic restart
 * sharded execution of a property module over N processes
 * accumulators -> evidence file, violations -> replay files, known-findings matching
"""
import hashlib
import json
import multiprocessing
import os
import random
import resource
import signal
import subprocess
import sys
import time
import traceback

VERIF = os.path.dirname(os.path.dirname(os.path.abspath(__file__)))
REPO = os.environ.get("VERIF_REPO", "/repo")
TARGET = os.path.join(VERIF, ".target")
# another checkout (VERIF_REPO) gets build directories of its own: svgdx is also a cdylib, so its artefacts carry no per-path hash
# in their names and cargo would call a library built from one checkout "fresh" for another it had built before
_SUFFIX = "" if REPO == "/repo" else "-" + __import__("hashlib").md5(REPO.encode()).hexdigest()[:10]
HARNESS_TARGET = os.path.join(TARGET, "harness" + _SUFFIX)
WORKER_BIN = os.path.join(HARNESS_TARGET, "release", "worker")
FE_TARGET = os.path.join(TARGET, "fe" + _SUFFIX)
FE_DIR = os.path.join(FE_TARGET, "release")
CLI_BIN = os.path.join(FE_DIR, "svgdx")
SERVER_BIN = os.path.join(FE_DIR, "svgdx-server")
SCRATCH = os.path.join(VERIF, "scratch")
EVIDENCE = os.path.join(VERIF, "evidence")
REPLAYS = os.path.join(VERIF, "replays")
KNOWN = os.path.join(VERIF, "known_findings.json")

NPROC = min(16, os.cpu_count() or 4)


class Inconclusive(Exception):
    pass


# --------------------------------------------------------------------------------------------
# builds

def _cargo_env():
    env = dict(os.environ)
    env["CARGO_NET_OFFLINE"] = "true"
    env.pop("RUSTFLAGS", None)
    return env


def build_worker():
    """(re)build the hook-enabled worker from /repo's current working tree."""
    lock = os.path.join(VERIF, "harness", "Cargo.lock")
    src = os.path.join(REPO, "Cargo.lock")
    try:
        if open(lock, "rb").read() != open(src, "rb").read():
            open(lock, "wb").write(open(src, "rb").read())
    except OSError:
        pass
    env = _cargo_env()
    env["CARGO_TARGET_DIR"] = HARNESS_TARGET
    manifest = os.path.join(VERIF, "harness", "Cargo.toml")
    if REPO != "/repo":
        # VERIF_REPO points at another checkout (background runs against a snapshot): same harness sources, path dependency
        # re-pointed, in a scratch copy under the build directory
        hdir = os.path.join(TARGET, "harness-src" + _SUFFIX)
        os.makedirs(hdir, exist_ok=True)
        text = open(manifest).read().replace('path = "/repo"', 'path = "%s"' % REPO)
        m2 = os.path.join(hdir, "Cargo.toml")
        if not os.path.exists(m2) or open(m2).read() != text:
            open(m2, "w").write(text)
        for name in ("Cargo.lock", "src"):
            dst = os.path.join(hdir, name)
            if os.path.islink(dst) or os.path.exists(dst):
                if os.path.islink(dst):
                    os.unlink(dst)
                else:
                    continue
            os.symlink(os.path.join(VERIF, "harness", name), dst)
        manifest = m2
    p = subprocess.run(
        ["cargo", "build", "--release", "--offline", "--manifest-path", manifest],
        env=env, stdout=subprocess.PIPE, stderr=subprocess.STDOUT, text=True)
    if p.returncode != 0:
        sys.stdout.write(p.stdout[-4000:])
        raise Inconclusive("worker build failed")


def build_frontends():
    """(re)build the shipped binaries (hooks off) from /repo's current working tree."""
    env = _cargo_env()
    env["CARGO_TARGET_DIR"] = FE_TARGET
    p = subprocess.run(
        ["cargo", "build", "--release", "--offline", "--bins", "--manifest-path",
         os.path.join(REPO, "Cargo.toml")],
        env=env, stdout=subprocess.PIPE, stderr=subprocess.STDOUT, text=True)
    if p.returncode != 0:
        sys.stdout.write(p.stdout[-4000:])
        raise Inconclusive("front-end build failed")


# --------------------------------------------------------------------------------------------
# configuration encoding

DEFAULT_CFG = dict(debug=False, scale=1.0, border=5, auto=True, bg="default", seed=0, loop=1000,
                   var=1024, depth=100, meta=False, fs=3.0, ff="sans-serif", theme="default",
                   local=False, style=None)


def _fnum(v):
    if isinstance(v, str):
        return v
    if v != v:
        return "nan"
    if v == float("inf"):
        return "inf"
    if v == float("-inf"):
        return "-inf"
    return repr(float(v))


def encode_cfg(cfg):
    if not cfg:
        return "-"
    parts = []
    for k, v in cfg.items():
        if k not in DEFAULT_CFG:
            raise ValueError("bad cfg key " + k)
        if k in ("debug", "auto", "meta", "local"):
            parts.append("%s=%d" % (k, 1 if v else 0))
        elif k in ("bg", "ff"):
            parts.append("%s=%s" % (k, v.encode("utf-8").hex() or "-"))
        elif k == "style":
            parts.append("style=%s" % ("none" if v is None else (v.encode("utf-8").hex() or "-")))
        elif k in ("scale", "fs"):
            parts.append("%s=%s" % (k, _fnum(v)))
        else:
            parts.append("%s=%s" % (k, v))
    return ";".join(parts) or "-"


def cli_args(cfg):
    """The svgdx command-line flags expressing cfg (--key=value forms, so that values starting
    with '-' are not taken for flags)."""
    a = []
    cfg = cfg or {}
    for k, v in cfg.items():
        if k == "debug" and v:
            a.append("--debug")
        elif k == "scale":
            a.append("--scale=" + _fnum(v))
        elif k == "border":
            a.append("--border=%s" % v)
        elif k == "auto" and not v:
            a.append("--no-auto-styles")
        elif k == "bg":
            a.append("--background=" + v)
        elif k == "seed":
            a.append("--seed=%s" % v)
        elif k == "loop":
            a.append("--loop-limit=%s" % v)
        elif k == "var":
            a.append("--var-limit=%s" % v)
        elif k == "depth":
            a.append("--depth-limit=%s" % v)
        elif k == "meta" and v:
            a.append("--add-metadata")
        elif k == "fs":
            a.append("--font-size=" + _fnum(v))
        elif k == "ff":
            a.append("--font-family=" + v)
        elif k == "theme":
            a.append("--theme=" + v)
        elif k == "local" and v:
            a.append("--use-local-styles")
        elif k == "style" and v is not None:
            a.append("--svg-style=" + v)
    return a


# --------------------------------------------------------------------------------------------
# worker process

class Result(dict):
    """status: ok | err | panic | died | blowup | wallclock | skip | harness"""
    __getattr__ = dict.get

    @property
    def ok(self):
        return self.get("status") == "ok"

    @property
    def crashed(self):
        return self.get("status") in ("panic", "died", "blowup", "stall")


def _limits():
    try:
        resource.setrlimit(resource.RLIMIT_AS, (6 << 30, 6 << 30))
        resource.setrlimit(resource.RLIMIT_CORE, (0, 0))
    except Exception:
        pass


class Worker:
    def __init__(self, wall_s=120):
        self.wall_s = wall_s
        self.p = None
        self.n = 0
        self.restarts = 0
        self.jobs = 0

    def _start(self):
        env = dict(os.environ)
        env["VERIF_WALL_S"] = str(self.wall_s)
        env["RUST_BACKTRACE"] = "0"
        # the worker runs under RLIMIT_AS: keep glibc from reserving a 64 MiB arena per thread (a THREADS batch would exhaust
        # the address space and thread creation would fail - a harness artefact, not a property of svgdx)
        env["MALLOC_ARENA_MAX"] = "4"
        self.p = subprocess.Popen([WORKER_BIN], stdin=subprocess.PIPE, stdout=subprocess.PIPE,
                                  stderr=subprocess.DEVNULL, env=env, preexec_fn=_limits)

    def close(self):
        if self.p is not None:
            try:
                self.p.stdin.close()
            except Exception:
                pass
            try:
                self.p.wait(timeout=5)
            except Exception:
                self.p.kill()
            self.p = None

    def _readline(self):
        line = self.p.stdout.readline()
        if not line:
            return None
        try:
            return json.loads(line)
        except Exception:
            return {"ev": "garbage", "raw": line[:200].decode("latin-1")}

    def _parse_ret(self, ev):
        r = Result()
        r["ctr"] = ev.get("ctr", {})
        r["cpu_us"] = ev.get("cpu_us", 0)
        if "probe" in ev:
            r["probe"] = ev["probe"]
        if "panic" in ev:
            r["status"] = "panic"
            r["loc"] = ev["panic"]["loc"]
            r["msg"] = ev["panic"]["msg"]
        elif "skip" in ev:
            r["status"] = "skip"
        elif ev.get("ok"):
            r["status"] = "ok"
            r["out"] = bytes.fromhex(ev["out"])
        else:
            r["status"] = "err"
            r["err"] = ev.get("err", "")
            r["kind"] = ev.get("kind", "")
        return r

    def run(self, data, cfg=None, api="probe", stack_kib=8192, repeat=1, max_evals=0):
        """Run one job; returns a Result (for repeat>1: Result of rep 0 with key 'reps')."""
        if isinstance(data, str):
            data = data.encode("utf-8")
        if self.p is None or self.p.poll() is not None:
            self._start()
        self.n += 1
        self.jobs += 1
        jid = "j%d" % self.n
        line = "JOB %s %s %d %d %d %s %s\n" % (jid, api, stack_kib, repeat, max_evals,
                                               encode_cfg(cfg), data.hex() or "-")
        try:
            self.p.stdin.write(line.encode("ascii"))
            self.p.stdin.flush()
        except (BrokenPipeError, OSError):
            pass
        called = False
        reps = []
        special = None
        while True:
            ev = self._readline()
            if ev is None:
                break
            t = ev.get("ev")
            if t == "call":
                called = True
            elif t == "ret" and ev.get("id") == jid:
                reps.append(self._parse_ret(ev))
                if len(reps) >= max(1, repeat):
                    r = reps[0]
                    if repeat > 1:
                        r["reps"] = reps
                    return r
            elif t in ("blowup", "wallclock", "stall"):
                special = ev
            elif t == "error":
                return Result(status="harness", msg=ev.get("msg"))
        # EOF: the worker process is gone; attribute to this job
        rc = self.p.wait()
        self.p = None
        self.restarts += 1
        if special is not None:
            return Result(status=special["ev"], elem_evals=special.get("elem_evals"),
                          expr_evals=special.get("expr_evals"), max=special.get("max"), rc=rc,
                          cpu_ms_without_progress=special.get("cpu_ms_without_progress"))
        return Result(status="died", rc=rc, sig=(-rc if rc < 0 else None), called=called)

    def run_threads(self, jobs, nthreads):
        """jobs: list of (data, cfg, api). Runs them concurrently inside the worker; returns
        list of (call_t, ret_t, Result) in job order."""
        if self.p is None or self.p.poll() is not None:
            self._start()
        ids = []
        lines = ["THREADS %d\n" % nthreads]
        for data, cfg, api in jobs:
            if isinstance(data, str):
                data = data.encode("utf-8")
            self.n += 1
            jid = "t%d" % self.n
            ids.append(jid)
            lines.append("JOB %s %s %d %d %d %s %s\n" % (jid, api, 2048, 1, 0, encode_cfg(cfg),
                                                     data.hex() or "-"))
        lines.append("END\n")
        payload = "".join(lines).encode("ascii")
        import threading
        th = threading.Thread(target=lambda: (self.p.stdin.write(payload), self.p.stdin.flush()))
        th.start()
        calls, rets = {}, {}
        while True:
            ev = self._readline()
            if ev is None:
                break
            t = ev.get("ev")
            if t == "call":
                calls[ev["id"]] = ev["t"]
            elif t == "ret":
                r = self._parse_ret(ev)
                rets[ev["id"]] = (ev["t"], r)
            elif t == "batch-end":
                break
        th.join()
        out = []
        for jid in ids:
            if jid in rets:
                out.append((calls.get(jid), rets[jid][0], rets[jid][1]))
            elif self.p.poll() is None:
                # the process is alive but the job has no return event: the worker could not run it (thread creation failed)
                out.append((calls.get(jid), None, Result(status="harness", msg="no return event, worker alive")))
            else:
                out.append((calls.get(jid), None, Result(status="died")))
        if self.p.poll() is not None:
            self.p = None
        self.jobs += len(jobs)
        return out


# --------------------------------------------------------------------------------------------
# seeds

def seed_value():
    try:
        return int(os.environ.get("VERIF_SEED", "1"))
    except ValueError:
        return 1


def named_rng(*names):
    h = hashlib.sha256(("|".join(str(n) for n in names)).encode()).digest()
    return random.Random(int.from_bytes(h[:8], "big"))


def chash(*parts):
    h = hashlib.blake2b(digest_size=8)
    for p in parts:
        if isinstance(p, str):
            p = p.encode("utf-8", "surrogatepass")
        elif not isinstance(p, (bytes, bytearray)):
            p = repr(p).encode()
        h.update(p)
        h.update(b"\x00")
    return h.digest()


# --------------------------------------------------------------------------------------------
# accumulators

class Acc:
    """Per-shard accumulator; merged by the parent."""

    def __init__(self):
        self.evaluations = 0          # executions of the real code
        self.cases = 0                # cases generated
        self.nontrivial = set()       # content hashes of non-trivial cases
        self.feat = {}                # feature -> count (over non-trivial cases)
        self.stats = {}               # free counters (hook aggregates etc.)
        self.maxes = {}
        self.samples = []
        self.violations = []          # dicts
        self.inconclusive = {}        # reason -> count
        self.notes = []

    def count(self, key, n=1):
        self.stats[key] = self.stats.get(key, 0) + n

    def maxi(self, key, v):
        if v is not None and v > self.maxes.get(key, float("-inf")):
            self.maxes[key] = v

    def feature(self, *keys):
        for k in keys:
            self.feat[k] = self.feat.get(k, 0) + 1

    def nontriv(self, h, feats=()):
        if h not in self.nontrivial:
            self.nontrivial.add(h)
            self.feature(*feats)
            return True
        return False

    def sample(self, s, limit=6):
        if len(self.samples) < limit:
            self.samples.append(s)

    def inconc(self, reason, n=1):
        self.inconclusive[reason] = self.inconclusive.get(reason, 0) + n

    def hooks(self, r):
        c = r.get("ctr") or {}
        for k in ("elem_evals", "retry_passes", "loop_iters", "rng_draws", "expr_evals", "scanner_steps"):
            if c.get(k):
                self.count("hook." + k, c[k])
        for k in ("depth_max", "expr_depth_max"):
            if c.get(k):
                self.maxi("hook." + k, c[k])

    def violation(self, clause, signature, case, observed, expected=None, what=None, **extra):
        v = dict(clause=clause, signature=signature, case=case, observed=observed,
                 expected=expected, what=what or clause)
        v.update(extra)
        self.violations.append(v)

    def merge(self, other):
        self.evaluations += other.evaluations
        self.cases += other.cases
        self.nontrivial |= other.nontrivial
        for k, v in other.feat.items():
            self.feat[k] = self.feat.get(k, 0) + v
        for k, v in other.stats.items():
            self.stats[k] = self.stats.get(k, 0) + v
        for k, v in other.maxes.items():
            self.maxi(k, v)
        for s in other.samples:
            self.sample(s, limit=12)
        self.violations += other.violations
        for k, v in other.inconclusive.items():
            self.inconc(k, v)
        self.notes += other.notes


class Ctx:
    """What a property module gets for one shard."""

    def __init__(self, prop, tier, seed, shard, nshards):
        self.prop, self.tier, self.seed, self.shard, self.nshards = prop, tier, seed, shard, nshards
        self.acc = Acc()
        self.worker = Worker()
        self.t0 = time.time()
        self.deadline = None

    def rng(self, *names):
        return named_rng(self.seed, self.prop, self.shard, *names)

    def run(self, data, cfg=None, **kw):
        r = self.worker.run(data, cfg, **kw)
        self.acc.evaluations += max(1, kw.get("repeat", 1))
        self.acc.hooks(r)
        if r.status == "wallclock":
            self.acc.inconc("worker-wallclock")
            if len(self.acc.notes) < 40:
                d = data if isinstance(data, bytes) else str(data).encode("utf-8", "replace")
                self.acc.notes.append("wallclock: input[%d bytes] %r elem_evals=%s expr_evals=%s" % (len(d), d[:120], r.get("elem_evals"), r.get("expr_evals")))
        elif r.status == "harness":
            self.acc.inconc("harness-error")
        return r

    def mine(self, i):
        """round-robin ownership of deterministic (non-random) work items"""
        return i % self.nshards == self.shard

    def out_of_time(self):
        return self.deadline is not None and time.time() > self.deadline

    def quick(self):
        return self.tier == "quick"


def _shard_entry(args):
    modname, prop, tier, seed, shard, nshards, budget_s = args
    signal.signal(signal.SIGINT, signal.SIG_IGN)
    ctx = Ctx(prop, tier, seed, shard, nshards)
    ctx.deadline = time.time() + budget_s
    try:
        mod = __import__("monitors." + modname, fromlist=["x"])
        mod.run_shard(ctx)
    except Exception:
        ctx.acc.inconc("shard-exception")
        ctx.acc.notes.append("shard %d exception: %s" % (shard, traceback.format_exc()[-1500:]))
    finally:
        ctx.worker.close()
    ctx.acc.count("worker.restarts", ctx.worker.restarts)
    return ctx.acc


def run_sharded(modname, prop, tier, seed, nshards=NPROC, budget_s=600):
    args = [(modname, prop, tier, seed, i, nshards, budget_s) for i in range(nshards)]
    total = Acc()
    if nshards == 1:
        total.merge(_shard_entry(args[0]))
        return total
    with multiprocessing.get_context("fork").Pool(nshards) as pool:
        for acc in pool.imap_unordered(_shard_entry, args):
            total.merge(acc)
    return total


# --------------------------------------------------------------------------------------------
# known findings, replay files, evidence

def load_known():
    try:
        with open(KNOWN) as f:
            return json.load(f)
    except FileNotFoundError:
        return {"findings": [], "fixed": []}


def match_known(prop, signature, known):
    for k in known.get("findings", []):
        if k.get("property") == prop and k.get("signature") == signature:
            return k
    return None


def _jsonable(o):
    if isinstance(o, (bytes, bytearray)):
        try:
            return {"utf8": bytes(o).decode("utf-8")}
        except UnicodeDecodeError:
            return {"hex": bytes(o).hex()}
    if isinstance(o, dict):
        return {str(k): _jsonable(v) for k, v in o.items()}
    if isinstance(o, (list, tuple)):
        return [_jsonable(v) for v in o]
    if isinstance(o, set):
        return sorted(_jsonable(v) for v in o)
    if isinstance(o, float) and (o != o or o in (float("inf"), float("-inf"))):
        return repr(o)
    return o


def unjson_bytes(o):
    if isinstance(o, dict) and set(o.keys()) == {"utf8"}:
        return o["utf8"].encode("utf-8")
    if isinstance(o, dict) and set(o.keys()) == {"hex"}:
        return bytes.fromhex(o["hex"])
    if isinstance(o, dict):
        return {k: unjson_bytes(v) for k, v in o.items()}
    if isinstance(o, list):
        return [unjson_bytes(v) for v in o]
    return o


def trunc(o, n=600):
    if isinstance(o, (bytes, bytearray)):
        o = bytes(o).decode("utf-8", "replace")
    if isinstance(o, str) and len(o) > n:
        return o[:n] + "...[%d chars]" % len(o)
    return o


def write_replay(prop, v):
    d = os.path.join(REPLAYS, prop)
    os.makedirs(d, exist_ok=True)
    body = json.dumps(_jsonable(dict(property=prop, **v)), indent=1, sort_keys=True, ensure_ascii=False)
    name = hashlib.sha256(body.encode("utf-8", "surrogatepass")).hexdigest()[:12] + ".json"
    path = os.path.join(d, name)
    with open(path, "w", encoding="utf-8", errors="surrogatepass") as f:
        f.write(body)
    return path


def clear_replays(prop):
    d = os.path.join(REPLAYS, prop)
    if os.path.isdir(d):
        for f in os.listdir(d):
            if f.endswith(".json"):
                try:
                    os.unlink(os.path.join(d, f))
                except OSError:
                    pass


def finish(prop, tier, seed, level, acc, rule, floor, t0, assumptions=(), extra_cov=None,
           programs=None):
    """Write evidence, print verdict lines, return the exit code."""
    known = load_known()
    by_sig = {}
    for v in acc.violations:
        by_sig.setdefault(v["signature"], []).append(v)
    known_hits, unknown = {}, {}
    for sig, vs in by_sig.items():
        k = match_known(prop, sig, known)
        if k is not None:
            known_hits[sig] = (k, vs)
        else:
            unknown[sig] = vs
    clear_replays(prop)
    lines = []
    for sig, (k, vs) in sorted(known_hits.items()):
        lines.append("KNOWN-FINDING: property=%s %s [signature %s; %d case(s) this run]" % (
            prop, k.get("what", ""), sig, len(vs)))
    for sig, vs in sorted(unknown.items()):
        path = write_replay(prop, vs[0])
        lines.append("VIOLATION property=%s replay=%s" % (prop, path))
        lines.append("  signature: %s  (%d case(s)) %s" % (sig, len(vs), trunc(vs[0].get("what"), 300)))
    n_nt = len(acc.nontrivial)
    coverage = dict(
        evaluations=acc.evaluations,
        distinct_nontrivial=n_nt,
        rule=rule,
        samples=[_jsonable(s) for s in acc.samples] or ["(none)"],
        cases_generated=acc.cases,
        features=dict(sorted(acc.feat.items())),
        hook_counters=dict(sorted(acc.stats.items())),
        maxima=dict(sorted(acc.maxes.items())),
        inconclusive=acc.inconclusive,
        known_findings_observed={s: len(vs) for s, (k, vs) in known_hits.items()},
        unlisted_violation_signatures=sorted(unknown.keys()),
        notes=acc.notes[:20],
    )
    if programs is not None:
        coverage["programs"] = programs
        coverage["disagreements_checked"] = len(acc.violations)
    if extra_cov:
        coverage.update(extra_cov)
    ev = dict(property_id=prop, tier=tier, seed=seed, level=level, coverage=coverage,
              assumptions=list(assumptions), wall_s=round(time.time() - t0, 2),
              violations=sum(len(v) for v in unknown.values()))
    os.makedirs(EVIDENCE, exist_ok=True)
    with open(os.path.join(EVIDENCE, prop + ".json"), "w") as f:
        json.dump(_jsonable(ev), f, indent=1, sort_keys=True)
    for l in lines:
        print(l)
    print("%s %s seed=%d: %d executions, %d cases, %d distinct non-trivial, %d unlisted violation signature(s), "
          "%d known finding(s) re-observed, inconclusive=%s, %.1fs" % (
              prop, tier, seed, acc.evaluations, acc.cases, n_nt, len(unknown), len(known_hits),
              json.dumps(acc.inconclusive), time.time() - t0))
    if unknown:
        return 1
    if acc.inconclusive.get("shard-exception") or acc.inconclusive.get("harness-error"):
        for n in acc.notes[:5]:
            print("NOTE", n)
        print("INCONCLUSIVE property=%s harness failure" % prop)
        return 2
    if n_nt < floor:
        print("INCONCLUSIVE property=%s only %d distinct non-trivial cases (floor %d)" % (prop, n_nt, floor))
        return 2
    return 0
