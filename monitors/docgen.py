"""E3: feature-tagged generator of whole svgdx documents.

gen_doc(rng, ...) -> (text, features). Every output-producing feature of svgdx is reachable, and a
hostile string alphabet is injected into every value flow that reaches the writer."""

HOSTILE_ATOMS = [
    "&", "<", ">", '"', "'", "--", "-->", "---", "--->", "-----", "]]>", "<!--", "<![CDATA[", "&amp;", "&#38;", "&lt;", "&quot;",
    "\t", "\n", "\r\n", "\r", " ", "  ", "\U0001F600", "é", "​", " ", "x" * 40, "a-b", "%", ";", ":",
    "\\", "\\n", "/", "=", "{", "}", "(", ")", "é", "日本", "`", "|", "~", "@", "^", "?>", "<?", "-",
]
EVAL_ATOMS = ["$", "${", "{{", "}}", "$v", "${v}", "{{1+1}}", "#a", "#zz"]

THEMES = ["default", "bold", "fine", "glass", "light", "dark"]
COLOURS = ["red", "blue", "green", "black", "white", "none", "goldenrod", "darkslateblue", "lightgrey"]
TEXT_CLASSES = ["d-text-bold", "d-text-italic", "d-text-monospace", "d-text-pre", "d-text-small", "d-text-large",
                "d-text-ol", "d-text-ol-thick", "d-text-top", "d-text-left", "d-text-outside", "d-text-inside",
                "d-text-vertical"]
MISC_CLASSES = ["d-thin", "d-thick", "d-thicker", "d-arrow", "d-biarrow", "d-dash", "d-dot", "d-dot-dash", "d-flow",
                "d-flow-fast", "d-flow-rev", "d-softshadow", "d-hardshadow", "d-surround", "d-grid", "d-hatch",
                "d-crosshatch", "d-stipple", "d-grid-h", "d-grid-v"]


def attr_escape(rng, s, plain=False):
    """Escape s for use inside a double-quoted attribute value (with random but equivalent spellings)."""
    out = []
    for ch in s:
        if ch == "&":
            out.append("&amp;" if plain or rng.random() < 0.8 else "&#38;")
        elif ch == "<":
            out.append("&lt;" if plain or rng.random() < 0.8 else "&#x3C;")
        elif ch == '"':
            out.append("&quot;" if plain or rng.random() < 0.8 else "&#34;")
        elif ch == ">" and not plain and rng.random() < 0.5:
            out.append("&gt;")
        elif ch == "'" and not plain and rng.random() < 0.3:
            out.append("&apos;")
        elif ch in "\t\n\r":
            # literal, or as a character reference (which is how a CR / LF / TAB survives attribute-value and line-end normalisation)
            if plain or rng.random() < 0.6:
                out.append(ch)
            else:
                out.append(rng.choice(["&#%d;", "&#x%X;", "&#x%x;"]) % ord(ch))
        else:
            out.append(ch)
    return "".join(out)


def text_escape(rng, s, plain=False):
    out = []
    for i, ch in enumerate(s):
        if ch == "&":
            out.append("&amp;" if plain or rng.random() < 0.8 else "&#38;")
        elif ch == "<":
            out.append("&lt;" if plain or rng.random() < 0.8 else "&#60;")
        elif ch == ">":
            # '>' must be escaped after ']]'
            out.append("&gt;" if plain or s[max(0, i - 2):i] == "]]" or rng.random() < 0.5 else ">")
        elif ch == "\r":
            out.append("&#13;")
        else:
            out.append(ch)
    return "".join(out)


def cdata_wrap(s):
    return "<![CDATA[" + s.replace("]]>", "]]]]><![CDATA[>") + "]]>"


def comment_safe(s):
    """A string that may legally appear inside an XML comment in the INPUT."""
    while "--" in s:
        s = s.replace("--", "- -")
    if s.endswith("-"):
        s += " "
    return s


class Gen:
    def __init__(self, rng, hostile=0.5, eval_atoms=0.05, max_el=25, root=True, features=None):
        self.rng = rng
        self.hostile = hostile
        self.eval_atoms = eval_atoms
        self.max_el = max_el
        self.root = root
        self.feats = set()
        self.ids = []          # ids of elements with a bounding box, usable as references
        self.n = 0
        self.only = features   # optional whitelist of feature toggles (None = all)

    def on(self, feat, p=1.0):
        if self.only is not None and feat not in self.only:
            return False
        if self.rng.random() < p:
            return True
        return False

    # ---- strings
    def hostile_string(self, allow_newline=True):
        r = self.rng
        n = r.choice([1, 1, 2, 3, 5])
        parts = []
        for _ in range(n):
            if r.random() < self.eval_atoms:
                parts.append(r.choice(EVAL_ATOMS))
                self.feats.add("str.eval-atom")
            elif r.random() < 0.6:
                a = r.choice(HOSTILE_ATOMS)
                if not allow_newline and a in ("\n", "\r\n", "\t"):
                    a = " "
                parts.append(a)
            else:
                parts.append(r.choice(["abc", "x", "Hello", "A1", "q r", "z9"]))
        s = "".join(parts)
        for a, f in (("&", "str.amp"), ("<", "str.lt"), (">", "str.gt"), ('"', "str.quot"), ("'", "str.apos"),
                     ("--", "str.dashdash"), ("]]>", "str.cdata-end"), ("\n", "str.newline"), ("\t", "str.tab"),
                     ("\U0001F600", "str.astral"), ("​", "str.zwsp"), ("&amp;", "str.literal-entity")):
            if a in s:
                self.feats.add(f)
        return s

    def value(self, allow_newline=True):
        if self.rng.random() < self.hostile:
            return self.hostile_string(allow_newline)
        return self.rng.choice(["red", "blue", "1", "abc", "x y", "10 20", "none"])

    def num(self, lo=-20, hi=60):
        r = self.rng
        k = r.random()
        if k < 0.6:
            return str(r.randint(lo, hi))
        if k < 0.9:
            return "%g" % (r.randint(lo * 4, hi * 4) / 4.0)
        return "%.3f" % r.uniform(lo, hi)

    def size(self):
        return str(self.rng.choice([1, 2, 3, 5, 8, 10, 12.5, 20, 0.5]))

    def new_id(self):
        self.n += 1
        return "e%d" % self.n

    def ref(self):
        if self.ids and self.rng.random() < 0.6:
            return "#" + self.rng.choice(self.ids)
        return "^"

    # ---- attribute sets
    def passthrough_attrs(self):
        r = self.rng
        out = []
        if self.on("attr.fill", 0.3):
            out.append(("fill", self.value(False) if r.random() < 0.3 else r.choice(COLOURS)))
            self.feats.add("flow.passthrough-attr")
        if self.on("attr.custom", 0.25):
            out.append((r.choice(["data-x", "title", "stroke", "aria-label", "xml:lang", "opacity"]), self.value()))
            self.feats.add("flow.passthrough-attr")
        if self.on("attr.style", 0.2):
            out.append(("style", r.choice(["fill: red", "stroke: blue; opacity: 0.5", "font-family: 'a b'", self.value(False)])))
            self.feats.add("flow.style-attr")
        if self.on("attr.class", 0.4):
            cl = []
            for _ in range(r.choice([1, 1, 2, 3, 5])):
                k = r.random()
                if k < 0.25:
                    cl.append("d-%s%s" % (r.choice(["", "fill-", "text-", "text-ol-"]), r.choice(COLOURS)))
                elif k < 0.45:
                    cl.append(r.choice(TEXT_CLASSES))
                elif k < 0.7:
                    cl.append(r.choice(MISC_CLASSES))
                elif k < 0.85:
                    cl.append("d-%s-%d" % (r.choice(["grid", "hatch", "crosshatch", "stipple", "grid-h", "grid-v"]),
                                           r.choice([1, 2, 5, 10, 25, 100, 101])))
                    self.feats.add("class.pattern-n")
                elif k < 0.93:
                    cl.append(r.choice(["mine", "a-b", "x1"]))
                else:
                    cl.append(self.hostile_string(False).replace(" ", "_") or "h")
                    self.feats.add("flow.class")
            out.append(("class", " ".join(cl)))
        if self.on("attr.comment", 0.15):
            out.append(("_", self.value()))
            self.feats.add("flow.comment-attr")
        if self.on("attr.rawcomment", 0.1):
            out.append(("__", self.value()))
            self.feats.add("flow.rawcomment-attr")
        return out

    def text_attrs(self):
        r = self.rng
        out = []
        if self.on("text.attr", 0.45):
            out.append(("text", self.value()))
            self.feats.add("flow.text-attr")
            if r.random() < 0.3:
                out.append(("text-loc", r.choice(["t", "b", "l", "r", "tl", "tr", "bl", "br", "c", "t:25%", "r:3"])))
            if r.random() < 0.15:
                out.append(("text-offset", self.num(0, 4)))
            if r.random() < 0.1:
                out.append(("text-style", r.choice(["font-size: 2px", self.value(False)])))
                self.feats.add("flow.text-style")
        return out

    def position_attrs(self, shape):
        r = self.rng
        out = []
        if shape in ("rect", "box", "image"):
            k = r.random()
            if k < 0.35 or not (self.ids or self.n):
                out += [("xy", "%s %s" % (self.num(), self.num())), ("wh", "%s %s" % (self.size(), self.size()))]
            elif k < 0.7:
                out += [("xy", "%s|%s %s" % (self.ref(), r.choice("hHvV"), r.choice(["", "2", "5", "-1"]))),
                        ("wh", self.size())]
                self.feats.add("pos.relative")
            elif k < 0.85:
                out += [("xy", "%s@%s" % (self.ref(), r.choice(["tl", "t", "tr", "r", "br", "b", "bl", "l", "c", "t:25%", "r:-2"]))),
                        ("wh", "%s %s" % (self.size(), self.size()))]
                self.feats.add("pos.relative")
            else:
                out += [("x", self.num()), ("y", self.num()), ("width", self.size()), ("height", self.size())]
        elif shape == "circle":
            if r.random() < 0.6 or not self.n:
                out += [("cxy", "%s %s" % (self.num(), self.num())), ("r", self.size())]
            else:
                out += [("xy", "%s|%s 3" % (self.ref(), r.choice("hv"))), ("r", self.size())]
                self.feats.add("pos.relative")
        elif shape == "ellipse":
            out += [("cxy", "%s %s" % (self.num(), self.num())), ("rxy", "%s %s" % (self.size(), self.size()))]
        elif shape == "line":
            if r.random() < 0.5 or len(self.ids) < 2:
                out += [("xy1", "%s %s" % (self.num(), self.num())), ("xy2", "%s %s" % (self.num(), self.num()))]
            else:
                a, b = r.sample(self.ids, 2)
                out += [("start", "#" + a + r.choice(["", "@r", "@b:30%"])), ("end", "#" + b + r.choice(["", "@l", "@t"]))]
                if r.random() < 0.3:
                    out.append(("edge-type", r.choice(["h", "v"])))
                self.feats.add("connector")
        elif shape in ("polyline", "polygon"):
            if shape == "polyline" and len(self.ids) >= 2 and r.random() < 0.4:
                a, b = r.sample(self.ids, 2)
                out += [("start", "#" + a), ("end", "#" + b)]
                if r.random() < 0.4:
                    out.append(("corner-offset", r.choice(["2", "30%"])))
                self.feats.add("connector")
            else:
                out.append(("points", " ".join("%s,%s" % (self.num(), self.num()) for _ in range(r.randint(2, 5)))))
        elif shape == "path":
            out.append(("d", "M%s %s L%s %s h%s v%s z" % (self.num(), self.num(), self.num(), self.num(), self.num(0, 9), self.num(0, 9))))
        elif shape == "text":
            out.append(("xy", "%s %s" % (self.num(), self.num())))
        elif shape == "point":
            out.append(("xy", "%s %s" % (self.num(), self.num())))
        return out

    # ---- serialisation
    def attrs_to_str(self, attrs):
        seen = set()
        parts = []
        for k, v in attrs:
            if k in seen:
                continue
            seen.add(k)
            parts.append('%s="%s"' % (k, attr_escape(self.rng, v)))
        return (" " + " ".join(parts)) if parts else ""

    def shape(self, indent):
        r = self.rng
        shape = r.choice(["rect", "rect", "rect", "circle", "ellipse", "line", "polyline", "polygon", "path", "text", "box", "point"])
        attrs = []
        eid = None
        if r.random() < 0.7:
            eid = self.new_id()
            attrs.append(("id", eid))
        else:
            self.n += 1
        attrs += self.position_attrs(shape)
        attrs += self.passthrough_attrs()
        content = None
        if shape in ("rect", "circle", "ellipse", "text", "line") and self.on("text.content", 0.2):
            s = self.value()
            if s.strip():
                if r.random() < 0.3:
                    content = cdata_wrap(s)
                    self.feats.add("flow.text-cdata")
                else:
                    content = text_escape(r, s)
                    self.feats.add("flow.text-content")
        if content is None:
            attrs += self.text_attrs()
            if shape == "text" and not any(k == "text" for k, _ in attrs):
                attrs.append(("text", self.value()))
                self.feats.add("flow.text-attr")
        self.feats.add("el." + shape)
        if eid and shape not in ("point",) and not any(k in ("start", "end") for k, _ in attrs):
            self.ids.append(eid)
        if content is not None:
            return "%s<%s%s>%s</%s>" % (indent, shape, self.attrs_to_str(attrs), content, shape)
        return "%s<%s%s/>" % (indent, shape, self.attrs_to_str(attrs))

    def block(self, depth, budget, indent):
        r = self.rng
        lines = []
        while budget[0] > 0:
            budget[0] -= 1
            k = r.random()
            if k < 0.55 or depth >= 3:
                lines.append(self.shape(indent))
            elif k < 0.63 and self.on("el.g"):
                attrs = self.passthrough_attrs()
                if r.random() < 0.3:
                    attrs.append(("transform", r.choice(["translate(3 4)", "scale(2)", "translate(1.5, -2) scale(0.5)"])))
                inner_budget = [min(budget[0], r.randint(1, 4))]
                budget[0] -= inner_budget[0]
                saved = list(self.ids)
                gid = self.new_id()
                lines.append('%s<g id="%s"%s>' % (indent, gid, self.attrs_to_str(attrs)))
                lines += self.block(depth + 1, inner_budget, indent + "  ")
                lines.append("%s</g>" % indent)
                self.ids = saved + [gid]
                self.feats.add("el.g")
            elif k < 0.68 and self.on("el.comment"):
                lines.append("%s<!-- %s -->" % (indent, comment_safe(self.value())))
                self.feats.add("flow.xml-comment")
            elif k < 0.73 and self.on("el.var"):
                name = r.choice(["v", "w", "k"])
                val = self.value(False)
                lines.append('%s<var %s="%s"/>' % (indent, name, attr_escape(r, val)))
                lines.append('%s<text xy="%s %s" text="[$%s]"%s/>' % (indent, self.num(), self.num(), name,
                                                                     ' _="c $%s"' % name if r.random() < 0.3 else ""))
                self.n += 1
                self.feats.add("flow.var-subst")
            elif k < 0.77 and self.on("el.strfn"):
                s = self.value(False).replace("\\", "").replace("'", "")
                lines.append('%s<text xy="%s %s" text="{{_(\'%s\')}}"/>' % (indent, self.num(), self.num(), attr_escape(r, s)))
                self.n += 1
                self.feats.add("flow.string-fn")
            elif k < 0.82 and self.on("el.loop"):
                n = r.randint(0, 3)
                lines.append('%s<loop count="%d" loop-var="i">' % (indent, n))
                lines.append('%s  <rect xy="{{$i * 7}} %s" wh="5" text="$i"/>' % (indent, self.num()))
                lines.append("%s</loop>" % indent)
                self.n += 1
                self.feats.add("el.loop")
            elif k < 0.85 and self.on("el.if"):
                lines.append('%s<if test="%d">' % (indent, r.randint(0, 1)))
                lines.append(self.shape(indent + "  "))
                lines.append("%s</if>" % indent)
                self.feats.add("el.if")
            elif k < 0.89 and self.ids and self.on("el.reuse"):
                tid = r.choice(self.ids)
                lines.append('%s<%s href="#%s"%s%s/>' % (indent, r.choice(["reuse", "use"]), tid,
                                                       ' x="%s" y="%s"' % (self.num(), self.num()) if r.random() < 0.6 else "",
                                                       self.attrs_to_str(self.passthrough_attrs()[:1])))
                self.n += 1
                self.feats.add("el.reuse/use")
            elif k < 0.92 and self.on("el.defs"):
                lines.append('%s<defs><linearGradient id="lg%d"><stop offset="0" stop-color="%s"/></linearGradient></defs>' % (
                    indent, self.n, attr_escape(r, self.value(False))))
                self.n += 1
                self.feats.add("el.defs")
            elif k < 0.94 and self.on("el.style"):
                lines.append("%s<style>%s</style>" % (indent, cdata_wrap("rect { fill: %s; }" % self.value(False))))
                self.feats.add("el.author-style")
            elif k < 0.96 and self.on("el.surround") and len(self.ids) >= 1:
                refs = " ".join("#" + i for i in r.sample(self.ids, min(len(self.ids), r.randint(1, 3))))
                lines.append('%s<rect surround="%s" margin="%s"%s/>' % (indent, refs, r.choice(["1", "2 3", "10%"]),
                                                                      self.attrs_to_str(self.text_attrs())))
                self.n += 1
                self.feats.add("el.surround")
            elif k < 0.98 and self.on("el.specs"):
                sid = self.new_id()
                lines.append('%s<specs><rect id="%s" wh="4 3" text="$t"/></specs>' % (indent, sid))
                lines.append('%s<reuse href="#%s" t="%s" x="%s" y="%s"/>' % (indent, sid, attr_escape(r, self.value(False)), self.num(), self.num()))
                self.feats.add("el.specs+reuse")
                self.feats.add("flow.reuse-var")
            else:
                lines.append(self.shape(indent))
        return lines


def gen_misc(rng, g, n, where):
    """n 'misc' items (comments, processing instructions, white space) as allowed before / after the root element."""
    out = []
    for _ in range(n):
        k = rng.random()
        if k < 0.6:
            out.append("<!-- %s -->" % rng.choice(["licence header", "Copyright (c) someone", "generated file", "line %d" % rng.randint(1, 99),
                                                   "a & b < c", "{{1 + 1}} $v", "é ü", ""]))
            g.feats.add("%s.comment" % where)
        elif k < 0.85:
            out.append("<?%s %s?>" % (rng.choice(["xml-stylesheet", "pi", "php"]), rng.choice(['href="a.css" type="text/css"', "x > y", "a=1", ""])))
            g.feats.add("%s.pi" % where)
        else:
            out.append(rng.choice(["", " ", "\n"]))
        out.append(rng.choice(["\n", "\n", "", "\n\n"]))
    return "".join(out)


def gen_doc(rng, hostile=0.5, eval_atoms=0.05, max_el=25, root=None, features=None, root_attrs=True, prolog=0.0):
    """Returns (document text, sorted feature list).  prolog: probability of a longer document prologue / epilogue
    (several comments, processing instructions, a DOCTYPE) around the root element."""
    g = Gen(rng, hostile=hostile, eval_atoms=eval_atoms, max_el=max_el, features=features)
    if root is None:
        root = rng.random() < 0.8
    budget = [rng.randint(1, max_el)]
    lines = g.block(0, budget, "  " if root else "")
    pre = ""
    if rng.random() < 0.15:
        pre = '<?xml version="1.0" encoding="UTF-8"?>\n'
        g.feats.add("prolog.xmldecl")
    post = ""
    if root and prolog and rng.random() < prolog:
        n = rng.choice([1, 2, 3, 4, 5, 6, 8, 12, 20])
        pre += gen_misc(rng, g, n, "prolog")
        g.feats.add("prolog.items>=4" if n >= 4 else "prolog.items<4")
        if rng.random() < 0.25:
            pre += rng.choice(['<!DOCTYPE svg>\n', '<!DOCTYPE svg PUBLIC "-//W3C//DTD SVG 1.1//EN" "http://www.w3.org/Graphics/SVG/1.1/DTD/svg11.dtd">\n'])
            g.feats.add("prolog.doctype")
            pre += gen_misc(rng, g, rng.randint(0, 3), "prolog")
        if rng.random() < 0.4:
            post = gen_misc(rng, g, rng.randint(1, 4), "epilog")
    if root:
        attrs = ""
        if root_attrs and rng.random() < 0.3:
            attrs = " " + rng.choice(['width="100"', 'height="50mm"', 'viewBox="0 0 50 50"', 'width="10cm" height="5cm"',
                                      'id="root"', 'class="big"', 'style="background: white"', 'data-x="&amp;"',
                                      'xmlns:xlink="http://www.w3.org/1999/xlink"', 'xmlns:xlink="http://www.w3.org/1999/xlink" width="40"',
                                      'xmlns:dc="http://purl.org/dc/elements/1.1/" id="r2"'])
            g.feats.add("root.attrs")
        text = pre + "<svg%s>\n" % attrs + "\n".join(lines) + "\n</svg>\n" + post
        g.feats.add("root.svg")
    else:
        text = pre + "\n".join(lines) + "\n"
        g.feats.add("root.fragment")
    return text, sorted(g.feats)


def gen_cfg(rng, allow_local=True, hostile=0.3):
    cfg = {}
    r = rng
    if r.random() < 0.3:
        cfg["debug"] = True
    if r.random() < 0.3:
        cfg["meta"] = True
    if r.random() < 0.4:
        cfg["theme"] = r.choice(THEMES)
    if r.random() < 0.15:
        cfg["auto"] = False
    if allow_local and r.random() < 0.15:
        cfg["local"] = True
    if r.random() < 0.25:
        cfg["bg"] = r.choice(["white", "#eee", "none", "default"]) if r.random() > hostile else \
            r.choice(["]]>", "a&b", "<x>", "\"q\"", "red; } svg { x", "--", "é"])
    if r.random() < 0.2:
        cfg["ff"] = r.choice(["serif", "'DejaVu Sans', sans-serif"]) if r.random() > hostile else \
            r.choice(["]]>", "a&b", "<x>", "\"q\"", "--"])
    if r.random() < 0.15:
        cfg["style"] = r.choice(["background: white", "a\"b", "x&y", "<", "'"])
    if r.random() < 0.2:
        cfg["scale"] = r.choice([0.5, 1.5, 2.0, 3.0])
    if r.random() < 0.2:
        cfg["border"] = r.choice([0, 1, 12, 100])
    if r.random() < 0.15:
        cfg["seed"] = r.choice([1, 7, 12345])
    if r.random() < 0.1:
        cfg["fs"] = r.choice([2.0, 4.5, 10.0])
    return cfg or None
