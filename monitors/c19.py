"""C19 Shape text reaches the output verbatim and at the requested anchor.

strings x carriers (text attribute, element content, CDATA content, <text> element) x shapes x text-loc values x
inside/outside x vertical x text-offset / text-dx / text-dy / text-dxy / text-lsp, with variables and expressions inside
the strings. Oracle: independent XML parser for the character data (per line / tspan), reference placement rule for
the anchor and the alignment classes, and 'shape unchanged apart from the text-specific attributes and classes'."""
from fractions import Fraction as F

from . import core, docgen, geom
from .geom import Box, fmt

LEVEL = "exploration"
TECHNIQUE = "runtime oracle: independent XML parse of generated text (character data per line) + reference placement rule for anchor and alignment classes"
LEVEL_TEXT = ("Held on the executions observed: ~1e5 generated texts (XML specials, entity references, Unicode, literal and escaped \\n, "
              "leading/empty lines, variables and expressions) over 4 carriers x 6 shapes x 13 locations x inside/outside x vertical x "
              "offsets: unescaped character data equalled the author's string line by line, the anchor was the text-loc point moved by "
              "text-offset and text-dx/dy in the documented direction with the matching classes, and the shape kept everything but "
              "its text-specific attributes. Exploration over strings x placements.")
LEVEL_NOTE = ("Trusted: expat for unescaping; the placement rule as read from the statement and docs. For vertical text the order of the "
              "tspans is not compared (the statement only says one tspan per line). A single trailing empty line may be dropped; "
              "empty lines are U+200B, spaces are NBSP under d-text-pre. Strings avoid '\\$' and CR.")
BUDGET_S = {"quick": 120, "thorough": 1200}
FLOOR = {"quick": 200, "thorough": 5000}
RULE = ("one shape+text per case; non-trivial = text with a special character or >= 2 lines, or a non-default placement; distinct by hash(document)")
ASSUMPTIONS = ["coordinates on a 1/4 grid"]

ZWSP, NBSP = "\u200b", "\u00a0"
LOCS = ["tl", "t", "tr", "r", "br", "b", "bl", "l", "c", "t:25%", "r:75%", "b:2", "l:-1"]
WORDS = ["Hello", "a & b", "x < y", "q > r", 'say "hi"', "it's", "&amp; literal", "&#38;", "tab\there", "  lead", "trail  ", "😀 é 日本", "a--b", "]]>",
         "<tag attr='1'>", "100%", "#a", "run \\", "\\", "@tl", "^", "a|b", "~w", "semi;colon", "(p)", "[b]", "=", "`", "\\", "C:\\dir", "\\t", "two  spaces", "-", "..."]


def gen_string(rng):
    """returns (S, features): S is the author's intended text (newlines = line breaks)"""
    n = rng.choice([1, 1, 1, 2, 2, 3, 4])
    lines = []
    feats = set()
    for _ in range(n):
        k = rng.random()
        if k < 0.12 and n > 1:
            lines.append("")
            feats.add("line.empty")
        elif k < 0.2 and n > 1:
            lines.append(rng.choice([" ", "  ", "    ", "\t", " \t "]))      # a line of white space only is not an empty line
            feats.add("line.whitespace-only")
        else:
            lines.append(" ".join(rng.choice(WORDS) for _ in range(rng.randint(1, 3))))
    if n > 1:
        feats.add("multiline")
    s = "\n".join(lines)
    if n > 1 and rng.random() < 0.15:
        s += "\n"
        feats.add("line.trailing-newline")
    for a, f in (("&", "amp"), ("<", "lt"), ('"', "quot"), ("\\", "backslash"), ("😀", "astral"), ("\t", "tab"), ("]]>", "cdata-end")):
        if a in s:
            feats.add("str." + f)
    return s, feats


def expected_lines(S):
    lines = S.split("\n")
    if len(lines) > 1 and lines[-1] == "":
        lines = lines[:-1]
    return lines


def encode_attr_text(rng, S):
    """spell S as a text attribute value: newlines as the two characters backslash-n, a literal backslash-n as \\\\n"""
    out = []
    i = 0
    while i < len(S):
        ch = S[i]
        if ch == "\n":
            out.append("\\n")
        elif ch == "\\" and i + 1 < len(S) and S[i + 1] == "n":
            out.append("\\\\n")
            i += 1
        else:
            out.append(ch)
        i += 1
    return "".join(out)


def has_ambiguous_backslash(S, literal_newlines=False):
    # "\\n" sequences interact with the \n escape: not generated. A backslash directly before a line break is ambiguous only
    # where the line break itself is spelled \n (text attribute); before a literal line break (element / CDATA content, e.g.
    # a shell line continuation) it is just a backslash.
    if "\\n" in S or S.endswith("\\"):
        return True
    return "\\\n" in S and not literal_newlines


def make_case(rng):
    while True:
        S, feats = gen_string(rng)
        if not has_ambiguous_backslash(S, literal_newlines=True) and S.strip() != "" and expected_lines(S) and any(l for l in expected_lines(S)):
            break
    shape = rng.choice(["rect", "rect", "circle", "ellipse", "line", "text", "box", "point", "polygon"])
    carrier = rng.choice(["attr", "attr", "content", "cdata"]) if shape in ("rect", "circle", "ellipse", "line", "text") else "attr"
    if has_ambiguous_backslash(S):
        # only unambiguous with literal line breaks
        shape = rng.choice(["rect", "circle", "ellipse", "line", "text"])
        carrier = rng.choice(["content", "cdata"])
        feats.add("line.ends-with-backslash")
    # substitution inside the string
    sub = rng.random()
    src = S
    pre = ""
    if sub < 0.15:
        pre = '<var who="W&amp;Co"/>'
        src = S + " $who"
        S = S + " W&Co"
        feats.add("subst.var")
    elif sub < 0.25:
        src = S + " {{1+2}}"
        S = S + " 3"
        feats.add("subst.expr")
    x, y = F(rng.randint(-40, 160), 4), F(rng.randint(-40, 160), 4)
    w, h = F(rng.randint(2, 40), 2), F(rng.randint(2, 40), 2)
    if shape == "circle":
        h = w
    box = Box(x, y, x + w, y + h)
    attrs = [("id", "s")]
    line = None
    rel_default_loc = None
    if shape in ("rect", "box"):
        attrs += [("xy", "%s %s" % (fmt(x), fmt(y))), ("wh", "%s %s" % (fmt(w), fmt(h)))]
    elif shape == "circle":
        attrs += [("cxy", "%s %s" % (fmt(box.cx), fmt(box.cy))), ("r", fmt(w / 2))]
    elif shape == "ellipse":
        attrs += [("cxy", "%s %s" % (fmt(box.cx), fmt(box.cy))), ("rxy", "%s %s" % (fmt(w / 2), fmt(h / 2)))]
    elif shape == "line":
        flip = rng.random() < 0.5
        p1, p2 = ((x, y), (x + w, y + h)) if not flip else ((x + w, y), (x, y + h))
        attrs += [("xy1", "%s %s" % (fmt(p1[0]), fmt(p1[1]))), ("xy2", "%s %s" % (fmt(p2[0]), fmt(p2[1])))]
    elif shape == "text" and rng.random() < 0.35:
        # a <text> positioned at a location of another element: its default text-loc is that location's side / corner
        # (an edge offset moves the point along the edge, it is not applied a second time to the text itself)
        rel = rng.choice(LOCS)
        pre += '<rect id="ref" xy="%s %s" wh="%s %s"/>' % (fmt(x), fmt(y), fmt(w), fmt(h))
        if ":" in rel:
            edge, off = rel.split(":")
            px, py = box.edge(edge, ("pct", F(off[:-1])) if off.endswith("%") else ("abs", F(off)))
        else:
            px, py = box.loc(rel)
        box = Box(px, py, px, py)
        attrs += [("xy", "#ref@%s" % rel)]
        rel_default_loc = rel.split(":")[0]
        feats.add("text.rel-loc" + (":edge-abs" if ":" in rel and not rel.endswith("%") else ":edge-pct" if ":" in rel else ""))
    elif shape in ("text", "point"):
        box = Box(x, y, x, y)
        sp = rng.random()
        if sp < 0.5:
            attrs += [("xy", "%s %s" % (fmt(x), fmt(y)))]
        elif sp < 0.7:
            attrs += [("x", fmt(x)), ("y", fmt(y))]
            feats.add("anchor.x-y")
        else:
            # one or both coordinates computed by an expression over literals (exact: multiples of 1/4)
            def ex(v):
                a = F(rng.randint(-20, 20), 4)
                return rng.choice(["{{%s + %s}}", "{{ %s+%s }}"]) % (fmt(a), fmt(v - a)) if v - a >= 0 else "{{%s - %s}}" % (fmt(a), fmt(a - v))
            which = rng.choice(["x", "y", "xy"])
            attrs += [("x", ex(x) if "x" in which else fmt(x)), ("y", ex(y) if "y" in which else fmt(y))]
            feats.add("anchor.x-y-expression")
    elif shape == "polygon":
        attrs += [("points", "%s,%s %s,%s %s,%s" % (fmt(x), fmt(y), fmt(x + w), fmt(y), fmt(x), fmt(y + h)))]
    loc = None
    if rel_default_loc is not None:
        loc = rel_default_loc          # derived, no text-loc attribute written
    elif rng.random() < 0.6:
        loc = rng.choice(LOCS)
        attrs.append(("text-loc", loc))
        feats.add("loc." + loc.split(":")[0] + (":edge" if ":" in loc else ""))
    offset = F(1)
    if rng.random() < 0.3:
        offset = F(rng.randint(-12, 12), 4)      # negative: moves the other way
        attrs.append(("text-offset", fmt(offset)))
        feats.add("text-offset")
    tdx = tdy = F(0)
    k = rng.random()
    if k < 0.15:
        tdx = F(rng.randint(-8, 8), 4)
        attrs.append(("text-dx", fmt(tdx)))
        feats.add("text-dx")
    elif k < 0.3:
        tdy = F(rng.randint(-8, 8), 4)
        attrs.append(("text-dy", fmt(tdy)))
        feats.add("text-dy")
    elif k < 0.4:
        tdx, tdy = F(rng.randint(-8, 8), 4), F(rng.randint(-8, 8), 4)
        attrs.append(("text-dxy", "%s %s" % (fmt(tdx), fmt(tdy))))
        feats.add("text-dxy")
    classes = []
    outside = shape in ("line", "point", "text")
    k = rng.random()
    if k < 0.15:
        classes.append("d-text-outside")
        outside = True
        feats.add("outside-class")
    elif k < 0.25:
        classes.append("d-text-inside")
        outside = False
        feats.add("inside-class")
    vertical = rng.random() < 0.12
    if vertical:
        classes.append("d-text-vertical")
        feats.add("vertical")
    pre_cls = rng.random() < 0.12
    if pre_cls:
        classes.append("d-text-pre")
        feats.add("text-pre")
    other_cls = rng.choice([[], [], ["d-red"], ["mine", "d-thick"]])
    if rng.random() < 0.15:
        attrs.append(("text-lsp", rng.choice(["1.5", "0.9"])))
    if rng.random() < 0.15:
        attrs.append(("text-style", "font-size: 2px"))
        feats.add("text-style")
    passthrough = []
    if rng.random() < 0.4:
        passthrough = [("fill", "none"), ("data-k", "v&w")][: rng.randint(1, 2)]
    if classes or other_cls:
        attrs.append(("class", " ".join(other_cls + classes)))
    attrs += passthrough
    astr = " ".join('%s="%s"' % (k_, docgen.attr_escape(rng, v, plain=True)) for k_, v in attrs)
    if carrier == "attr":
        el = '<%s %s text="%s"/>' % (shape, astr, docgen.attr_escape(rng, encode_attr_text(rng, src)))
    elif carrier == "content":
        el = "<%s %s>%s</%s>" % (shape, astr, docgen.text_escape(rng, src), shape)
    else:
        if "]]>" in src:
            carrier = "content"
            el = "<%s %s>%s</%s>" % (shape, astr, docgen.text_escape(rng, src), shape)
        else:
            el = "<%s %s><![CDATA[%s]]></%s>" % (shape, astr, src, shape)
            if len(src) >= 3 and rng.random() < 0.4:
                # content mixing ordinary text with a CDATA section: the pieces are one string, white space next to the section
                # included. (A piece of white space only around a section is layout and is dropped, so pieces are kept non-blank.)
                i = rng.randint(1, len(src) - 2)
                j = rng.randint(i + 1, len(src) - 1)
                a, b, c = src[:i], src[i:j], src[j:]
                if rng.random() < 0.3:
                    b, c = b + c, ""
                elif rng.random() < 0.2:
                    a, b = "", a + b
                if (a == "" or a.strip()) and (c == "" or c.strip()) and (a or c) and "]]>" not in b:
                    el = "<%s %s>%s<![CDATA[%s]]>%s</%s>" % (shape, astr, docgen.text_escape(rng, a), b, docgen.text_escape(rng, c), shape)
                    feats.add("carrier.mixed-text-cdata")
    feats.add("carrier." + carrier)
    feats.add("shape." + shape)
    doc = "<svg>%s%s</svg>" % (pre, el)
    special = any(f.startswith(("str.", "subst.", "multiline", "line.")) for f in feats) or loc not in (None, "c") or bool(tdx or tdy) or vertical or "outside-class" in feats
    return dict(input=doc.encode("utf-8"), S=S, shape=shape, box=[fmt(v) for v in box.tuple()], loc=loc, offset=fmt(offset), tdx=fmt(tdx), tdy=fmt(tdy),
                outside=outside, vertical=vertical, pre=pre_cls, other_cls=other_cls, passthrough=passthrough, carrier=carrier, feats=sorted(feats), nontrivial=special)


def expected_anchor(case):
    box = Box(*[geom.fr(v) for v in case["box"]])
    loc = case["loc"] or "c"
    if ":" in loc:
        edge, off = loc.split(":")
        spec = (edge, ("pct", F(off[:-1])) if off.endswith("%") else ("abs", F(off)))
        px, py = box.edge(*spec)
        base = edge
    else:
        px, py = box.loc(loc)
        base = loc
    o = geom.fr(case["offset"])
    sign = -1 if case["outside"] else 1
    dx = dy = F(0)
    if "t" in base:
        dy += sign * o
    if "b" in base:
        dy -= sign * o
    if "l" in base:
        dx += sign * o
    if "r" in base:
        dx -= sign * o
    classes = {"d-text"}
    v = "-vertical" if case["vertical"] else ""
    flip = {"top": "bottom", "bottom": "top", "left": "right", "right": "left"}
    for letter, name in (("t", "top"), ("b", "bottom"), ("l", "left"), ("r", "right")):
        if letter in base:
            classes.add("d-text-" + (flip[name] if case["outside"] else name) + v)
    return px + dx + geom.fr(case["tdx"]), py + dy + geom.fr(case["tdy"]), classes


def check_case(ctx, case):
    acc = ctx.acc
    acc.cases += 1
    r = ctx.run(case["input"], dict(auto=False))
    if r.crashed:
        acc.count("crashed(C01's business)")
        return
    if case.get("nontrivial"):
        acc.nontriv(core.chash(case["input"]), case.get("feats", []))
    key = "%s/%s" % (case["carrier"], case["shape"])
    if not r.ok:
        acc.violation("rejected", "rejected:" + key, case, observed=core.trunc(r.err, 300), expected="Ok")
        return
    root = geom.parse_out(r.out).elements()[0]
    els = root.elements()
    texts = [e for e in els if e.name == "text"]
    if len(texts) != 1:
        acc.violation("text-missing", "text-element-count:" + key, case, observed=[e.name for e in els], expected="exactly one <text>")
        return
    t = texts[0]
    # ---- character data
    lines = expected_lines(case["S"])
    if case["pre"]:
        lines = [l.replace(" ", NBSP) for l in lines]
    if len(lines) == 1:
        got = [t.all_text()] if not t.elements() else [s.all_text() for s in t.elements()]
        if len(got) == 1 and got[0].endswith("\n") and case["S"].endswith("\n"):
            got = [got[0][:-1]]      # a single trailing empty line is optional
    else:
        got = [s.all_text() for s in t.find_all("tspan")]
        lines = [l if l != "" else ZWSP for l in lines]
    # weak reading of 'verbatim': trailing white space of a line is not compared (insignificant in SVG text, and svgdx trims
    # line ends when writing); under d-text-pre a space may be written as a no-break space
    def norm(ls):
        ls = [l.rstrip(" \t") for l in ls]
        if case["pre"]:
            ls = [l.replace(NBSP, " ").rstrip(" ") for l in ls]
        return ls
    got, lines = norm(got), norm(lines)
    ok = (sorted(got) == sorted(lines)) if case["vertical"] else (got == lines)
    if not ok:
        def cls(a, b):
            if len(a) != len(b):
                return "line-count"
            for x, y in zip(a, b):
                if x != y:
                    if x.strip() == y.strip():
                        return "whitespace"
                    if x.replace("&amp;", "&") == y or y.replace("&amp;", "&") == x:
                        return "escaping-level"
                    return "content"
            return "order"
        acc.violation("text-content", "text-differs:%s/%s" % (cls(got, lines), case["carrier"]), case, observed=got, expected=lines,
                      what="character data of the generated text %r differs from the author's text %r" % (got, lines))
    # ---- the block of lines: anchored at the location and 'moved inward (outward ...)', so seen from the anchor all lines lie
    # on one side: away from the edge the text sits on when inside, away from the shape when outside
    spans = t.find_all("tspan")
    base = (case["loc"] or "c").split(":")[0]
    if len(spans) >= 2:
        attr = "dx" if case["vertical"] else "dy"
        try:
            offs = [float((s_.attrs.get(attr) or "0").replace("em", "")) for s_ in spans]
        except ValueError:
            offs = None
        comp = [c_ for c_ in base if c_ in ("lr" if case["vertical"] else "tb")]
        if offs is not None and len(comp) == 1:
            cum, tot = [], 0.0
            for o_ in offs:
                tot += o_
                cum.append(round(tot, 6))
            start_edge = comp[0] in "tl"
            want_nonneg = (start_edge != bool(case["outside"]))
            ok_side = all(c_ >= -1e-6 for c_ in cum) if want_nonneg else all(c_ <= 1e-6 for c_ in cum)
            if not ok_side:
                acc.violation("block-direction", "lines-cross-the-anchored-edge:%s/%s%s" % (comp[0], "outside" if case["outside"] else "inside", "/vertical" if case["vertical"] else ""),
                              case, observed=dict(attr=attr, offsets=offs, cumulative=cum), expected="all lines on the %s side of the anchor" % ("positive" if want_nonneg else "negative"),
                              what="multi-line text at text-loc %s: the lines extend across the edge the text is anchored to (cumulative %s offsets %s)" % (base, attr, cum))
    # ---- anchor and classes
    ex, ey, eclasses = expected_anchor(case)
    try:
        gx, gy = geom.attr_num(t, "x", F(0)), geom.attr_num(t, "y", F(0))
    except ValueError as e:
        acc.violation("anchor", "anchor:unreadable/" + key, case, observed=str(e), expected="numbers")
        return
    eps = F(6, 10000)
    if abs(gx - ex) > eps or abs(gy - ey) > eps:
        acc.violation("anchor", "anchor:%s/%s%s" % ("loc=" + (case["loc"] or "default").split(":")[0], "outside" if case["outside"] else "inside", "/" + case["shape"]), case,
                      observed=(fmt(gx), fmt(gy)), expected=(fmt(ex), fmt(ey)), what="text anchored at %s,%s; the rule gives %s,%s" % (fmt(gx), fmt(gy), fmt(ex), fmt(ey)))
    tcls = set(t.classes())
    align = {c for c in tcls if c in ("d-text",) or c.startswith(("d-text-top", "d-text-bottom", "d-text-left", "d-text-right"))}
    if align != eclasses:
        acc.violation("alignment-classes", "alignment-classes:%s" % ("outside" if case["outside"] else "inside"), case, observed=sorted(align), expected=sorted(eclasses))
    # ---- the shape itself
    if case["shape"] not in ("text", "box", "point"):
        shapes = [e for e in els if e.attrs.get("id") == "s"]
        if len(shapes) != 1 or shapes[0].name != case["shape"]:
            acc.violation("shape-changed", "shape-missing:" + key, case, observed=[e.name for e in els], expected=case["shape"])
            return
        s = shapes[0]
        left = [a for a in s.attrs if a.startswith("text")]
        scls = set(s.classes())
        if left or any(c.startswith("d-text-") for c in scls) or not set(case["other_cls"]) <= scls:
            acc.violation("shape-changed", "shape-keeps-text-attributes/classes", case, observed=dict(attrs=s.attrs), expected="no text* attributes, no d-text-* classes, other classes kept")
        for k, v in case["passthrough"]:
            if s.attrs.get(k) != v:
                acc.violation("shape-changed", "shape-attribute-changed", case, observed=s.attrs.get(k), expected=v)
        got_box = geom.out_box(s)
        if case["shape"] in ("rect", "circle", "ellipse", "line") and got_box != Box(*[geom.fr(v) for v in case["box"]]):
            acc.violation("shape-changed", "shape-geometry-changed", case, observed=repr(got_box), expected=case["box"])


def run_shard(ctx):
    acc = ctx.acc
    rng = ctx.rng("text")
    n = 24000 if ctx.quick() else 500000
    for j in range(n):
        if ctx.out_of_time():
            acc.notes.append("time budget reached after %d cases" % j)
            break
        case = make_case(rng)
        check_case(ctx, case)
        if j < 3:
            acc.sample(dict(input=case["input"].decode(), S=case["S"]))
