"""C02 Successful output is always well-formed XML with a proper SVG root.

Oracle: an independent parser (expat) over every Ok output of generated documents in which a hostile
string alphabet is injected into every value flow that reaches the writer, x configurations."""
import re

from . import core, corpus, docgen, xmlcanon

NEEDS_FRONTENDS = True
LEVEL = "exploration"
TECHNIQUE = "runtime oracle: independent XML parser (expat) applied to every successful output of hostile-string workloads"
LEVEL_TEXT = ("Held on the outputs observed: every successful transform of ~1e5 generated documents x configurations parsed as "
              "well-formed UTF-8 XML with no duplicate attribute, and root-<svg> inputs gave a single <svg> root with namespace "
              "and version. Exploration: the property quantifies over all inputs and configurations.")
LEVEL_NOTE = ("Trusted: expat as the definition of well-formedness (namespace processing off). Outputs of inputs that are "
              "themselves ill-formed XML (accepted only because quick-xml is lenient) are counted, not judged.")
BUDGET_S = {"quick": 150, "thorough": 1500}
FLOOR = {"quick": 200, "thorough": 5000}
RULE = ("documents from the feature-tagged generator (hostile strings & < > \" ' -- --> ]]> <!-- entities, tabs/newlines, "
        "astral/combining Unicode in pass-through attributes, class, style, text attribute, element/CDATA content, _ and __ "
        "comments, XML comments, variable substitution, string functions, reuse bindings, config strings) + repository corpus, "
        "x configurations (debug, metadata, 6 themes, local styles, background/font/svg-style strings); non-trivial = the "
        "transform returned Ok, the input is well-formed XML, and a hostile token or a config string was in play; "
        "distinct by hash(input, config)")
ASSUMPTIONS = ["for a namespaced (real SVG) root the 'version' clause is required only if the input carried one: C03 forbids adding it",
               "fragments (no root <svg>) are checked as XML content (wrapped in a dummy root)"]

SVGNS = "http://www.w3.org/2000/svg"


def context_at(out, offset):
    """What construct of the output contains byte offset `offset`?"""
    pre = out[:offset]
    if pre.rfind(b"<!--") > pre.rfind(b"-->"):
        return "in-comment"
    if pre.rfind(b"<![CDATA[") > pre.rfind(b"]]>"):
        return "in-cdata"
    lt, gt = pre.rfind(b"<"), pre.rfind(b">")
    if lt > gt:
        tag = pre[lt:]
        if tag.count(b'"') % 2 == 1:
            m = re.findall(rb'([\w:-]+)="[^"]*$', tag)
            return "in-attr-value(%s)" % (m[-1].decode("latin-1") if m else "?")
        return "in-tag"
    return "in-text"


def root_info(data):
    """(is_wellformed, root_name, root_attrs, n_top_elements) of the INPUT"""
    try:
        evs = xmlcanon.parse_events(data, fragment=True)
    except xmlcanon.XMLError:
        return False, None, None, 0
    depth = 0
    tops = []
    for ev in evs:
        if ev[0] == "start":
            if depth == 0:
                tops.append(ev)
            depth += 1
        elif ev[0] == "end":
            depth -= 1
    if not tops:
        return True, None, None, 0
    return True, tops[0][1], tops[0][2], len(tops)


def check_output(ctx, case, out, in_root, in_attrs, n_top):
    acc = ctx.acc
    try:
        out.decode("utf-8")
    except UnicodeDecodeError as e:
        acc.violation("not-utf8", "not-utf8", case, observed=str(e), expected="UTF-8 output")
        return False
    root_svg = (in_root == "svg" and n_top == 1)
    try:
        evs = xmlcanon.parse_events(out, fragment=not root_svg)
    except xmlcanon.XMLError as e:
        msg = str(e)
        m = re.search(r"line (\d+), column (\d+)", msg)
        where = "?"
        if m:
            line, col = int(m.group(1)), int(m.group(2))
            lines = out.split(b"\n")
            off = sum(len(l) + 1 for l in lines[:line - 1]) + col
            where = context_at(out, off)
            # if wrapped as fragment the offsets are relative to the wrapped text; still indicative
        cls = re.sub(r":? line \d+, column \d+", "", msg)
        cls = re.sub(r"\(as fragment.*", "", cls).strip()
        acc.violation("ill-formed", "illformed:%s/%s" % (cls, where), case,
                      observed=dict(error=msg, output=core.trunc(out, 1500)), expected="well-formed XML",
                      what="expat rejects the output: %s (%s)" % (msg, where))
        return False
    if root_svg:
        tops = []
        depth = 0
        stray = False
        for ev in evs:
            if ev[0] == "start":
                if depth == 0:
                    tops.append(ev)
                depth += 1
            elif ev[0] == "end":
                depth -= 1
            elif ev[0] == "chars" and depth == 0 and ev[1].strip():
                stray = True
        ok = True
        if len(tops) != 1 or stray or tops[0][1] != "svg":
            acc.violation("root", "root:not-single-svg-root", case, observed=[t[1] for t in tops], expected="single <svg> root")
            return False
        attrs = tops[0][2]
        # input class for signatures: a root <svg> declaring a default namespace other than SVG's is copied through unprocessed
        # (known finding, same mechanism as C05's @foreign-xmlns-root); every other input is the ordinary class
        xm = (in_attrs or {}).get("xmlns")
        icls = "@foreign-xmlns-root" if (xm is not None and xm != SVGNS) else ""
        if attrs.get("xmlns") != SVGNS:
            acc.violation("root", "root:xmlns-missing" + icls, case, observed=attrs, expected="xmlns=" + SVGNS)
            ok = False
        real = xm == SVGNS
        if "version" not in attrs and (not real or "version" in (in_attrs or {})):
            acc.violation("root", "root:version-missing" + icls, case, observed=attrs, expected="a version attribute")
            ok = False
        return ok
    return True


def check_case(ctx, case):
    acc = ctx.acc
    acc.cases += 1
    data = case["input"]
    cfg = case.get("cfg")
    r = ctx.run(data, cfg)
    if r.crashed:
        acc.count("crashed(C01's business)")
        return
    if r.status != "ok":
        acc.count("status." + str(r.status))
        return
    wf, in_root, in_attrs, n_top = root_info(data)
    if not wf:
        acc.count("input-ill-formed(not judged)")
        return
    good = check_output(ctx, case, r.out, in_root, in_attrs, n_top)
    hostile = case.get("hostile", True)
    if hostile:
        acc.nontriv(core.chash(data, core.encode_cfg(cfg)), case.get("feats", []))
    acc.count("outputs-parsed")
    return good


BAD_UTF8 = [b"\xe9", b"caf\xe9", b"\xff\xfe", b"\xc3(", b"\xc0\xaf", b"\xed\xa0\x80", b"\xf8\x88\x80\x80\x80", b"a\x80b"]
# %s = the carrier's place; hosts: an svgdx document, a real-SVG document (passed through), a namespaced subtree inside an svgdx document
BYTE_HOSTS = [("svgdx", b'<svg>%s<rect wh="3" text="t"/></svg>'),
              ("real-root", b'<svg xmlns="http://www.w3.org/2000/svg">%s<rect width="3" height="3"/></svg>'),
              ("nested-real", b'<svg><rect wh="2"/><svg xmlns="http://www.w3.org/2000/svg" width="5" height="5">%s<circle r="1"/></svg></svg>'),
              ("specs", b'<svg><specs>%s</specs><rect wh="2"/></svg>')]
BYTE_CARRIERS = [("pi", b"<?note %s?>"), ("pi-target", b"<?n%s x?>"), ("comment", b"<!-- %s -->"), ("text", b"<text>%s</text>"), ("cdata", b"<style><![CDATA[%s]]></style>"),
                 ("attr-value", b'<rect wh="1" fill="%s"/>'), ("attr-name", b'<rect wh="1" a%s="1"/>'), ("element-name", b"<e%s/>"), ("underscore-comment", b'<rect wh="1" _="%s"/>'),
                 ("label", b'<rect wh="1" text="%s"/>')]
BYTE_PROLOGS = [("xmldecl", b'<?xml version="1.0" encoding="%s"?>'), ("doctype", b"<!DOCTYPE svg [<!-- %s -->]>"), ("doctype-name", b"<!DOCTYPE s%s>"), ("prolog-pi", b"<?p %s?>"),
                ("prolog-comment", b"<!-- %s -->")]


def check_bytes_case(ctx, data, clean, cfg, feats):
    """input that is not UTF-8: the transform may refuse it; if it answers Ok the output still has to be well-formed UTF-8 XML"""
    acc = ctx.acc
    acc.cases += 1
    case = dict(input=data, cfg=cfg, feats=feats, hostile=True)
    r = ctx.run(data, cfg)
    if r.crashed:
        acc.count("crashed(C01's business)")
        return
    acc.nontriv(core.chash(data, core.encode_cfg(cfg)), feats)
    if r.status != "ok":
        acc.count("bytes.refused")
        return
    acc.count("bytes.accepted")
    wf, in_root, in_attrs, n_top = root_info(clean)
    check_output(ctx, case, r.out, in_root if wf else None, in_attrs, n_top)


def bytes_family(ctx):
    k = 0
    for bad in BAD_UTF8:
        for hname, host in BYTE_HOSTS:
            for cname, carrier in BYTE_CARRIERS:
                k += 1
                if ctx.mine(k):
                    for cfg in (None, dict(debug=True, meta=True)):
                        check_bytes_case(ctx, host % (carrier % bad), host % (carrier % b"x"), cfg, ["bytes.non-utf8", "host." + hname, "carrier." + cname])
            for pname, prolog in BYTE_PROLOGS:
                k += 1
                if ctx.mine(k):
                    check_bytes_case(ctx, (prolog % bad) + (host % b""), (prolog % (b"UTF-8" if pname == "xmldecl" else b"x")) + (host % b""), None, ["bytes.non-utf8", "host." + hname, "carrier." + pname])


def cli_file_stream(ctx):
    """The svgdx command writing to a file: the *file* must be well-formed whatever it held before (a history of renders to
    the same path: long output first, then shorter ones; a pre-existing unrelated file)."""
    import os, shutil, tempfile
    from . import frontends
    acc = ctx.acc
    rng = ctx.rng("cli-files")
    d = tempfile.mkdtemp(prefix="c02-", dir=core.SCRATCH)
    try:
        ip, op = os.path.join(d, "in.xml"), os.path.join(d, "out.svg")
        for j in range(12 if ctx.quick() else 150):
            if ctx.out_of_time():
                break
            if os.path.exists(op):
                os.unlink(op)
            sizes = [rng.choice([40, 25]), rng.choice([1, 2, 3]), rng.choice([10, 1]), rng.choice([30, 2])]
            if rng.random() < 0.3:
                open(op, "wb").write(rng.choice([b"X" * 50000, b"<svg>" + b"<g/>" * 5000 + b"</svg>", b""]))
            for step, m in enumerate(sizes):
                text, feats = docgen.gen_doc(rng, hostile=0.3, eval_atoms=0.0, max_el=m, root=True)
                cfg = docgen.gen_cfg(rng, hostile=0.0)
                data = text.encode("utf-8")
                open(ip, "wb").write(data)
                res = frontends.run_cli(core.cli_args(cfg) + [ip, "-o", op], timeout=120)
                acc.evaluations += 1
                acc.cases += 1
                if res.rc != 0 or not os.path.exists(op):
                    acc.count("cli.failed-run(not judged)")
                    continue
                out = open(op, "rb").read()
                wf, in_root, in_attrs, n_top = root_info(data)
                case = dict(input=data, cfg=cfg, feats=["cli-file", "history-step-%d" % step], via="svgdx -o FILE (step %d of a history of renders to the same path)" % step)
                if wf:
                    check_output(ctx, case, out, in_root, in_attrs, n_top)
                    acc.nontriv(core.chash("cli-file", ctx.shard, j, step), ["cli-file.step%d" % min(step, 3)])
                acc.count("cli.file-outputs-parsed")
    finally:
        shutil.rmtree(d, ignore_errors=True)


def run_shard(ctx):
    acc = ctx.acc
    cli_file_stream(ctx)
    rng = ctx.rng("docs")
    n = 14000 if ctx.quick() else 300000
    for j in range(n):
        if ctx.out_of_time():
            acc.notes.append("time budget reached after %d docs" % j)
            break
        text, feats = docgen.gen_doc(rng, hostile=0.6, eval_atoms=0.03, prolog=0.2)
        cfg = docgen.gen_cfg(rng)
        hostile = any(f.startswith("str.") for f in feats) or bool(cfg and any(k in cfg for k in ("bg", "ff", "style")))
        case = dict(input=text.encode("utf-8"), cfg=cfg, feats=feats, hostile=hostile)
        check_case(ctx, case)
        if j < 2:
            acc.sample(dict(input=core.trunc(text, 500), cfg=cfg))
    # degenerate roots under a grid of configurations (the root start / end tags are written by separate code paths)
    roots = ['<svg xmlns:xlink="http://www.w3.org/1999/xlink"><rect wh="1"/></svg>', '<svg xmlns:xlink="http://www.w3.org/1999/xlink"/>',
             # a namespaced <svg> as the FIRST child (of the root / of a group): it alone is passed through
             '<svg><svg xmlns="http://www.w3.org/2000/svg" width="5" height="5"><rect width="3" height="3"/></svg><rect xy="10 0" wh="4" text="x"/></svg>',
             '<svg>\n  <g><svg xmlns="http://www.w3.org/2000/svg"><circle r="2"/></svg><rect wh="2" text="t"/></g>\n</svg>',
             "<svg/>", "<svg />", '<svg width="10"/>', '<svg viewBox="0 0 1 1" class="c"/>', "<svg></svg>", "<svg>\n</svg>", "<svg/>\n<!-- after -->",
             "<svg><!-- only a comment --></svg>", '<svg/>\n', "<?xml version=\"1.0\"?><svg/>", "<svg><style>a{}</style></svg>", "<svg><defs/></svg>"]
    k = 0
    for t in roots:
        for auto in (True, False):
            for debug in (False, True):
                for extra in (None, dict(meta=True), dict(local=True), dict(bg="white"), dict(theme="dark"), dict(style="a:b")):
                    k += 1
                    if not ctx.mine(k):
                        continue
                    cfg = dict(extra or {})
                    if not auto:
                        cfg["auto"] = False
                    if debug:
                        cfg["debug"] = True
                    check_case(ctx, dict(input=t.encode("utf-8"), cfg=cfg or None, feats=["degenerate-root", "auto." + str(auto)], hostile=True))
    bytes_family(ctx)
    # corpus and small edge documents under several configurations
    from .c05 import EDGE_DOCS
    docs = corpus.texts() + EDGE_DOCS + ["<svg/><svg/>", "<svg/><rect wh=\"1\"/>", "<rect wh=\"1\"/><svg/>", ""]
    for i, t in enumerate(docs):
        if not ctx.mine(i):
            continue
        for k in range(2 if ctx.quick() else 8):
            cfg = docgen.gen_cfg(ctx.rng("corpus", i, k))
            check_case(ctx, dict(input=t.encode("utf-8"), cfg=cfg, feats=["corpus"], hostile=bool(cfg)))
