"""C14 Expressions evaluate with conventional arithmetic semantics, exactly once.

 * value family: random expression trees over numbers, scalar/list variables, all operators and the built-in functions,
   rendered with random whitespace / redundant parentheses, placed in every context (text, geometry attribute, <var>,
   comment, loop count, if test, for data); oracle: reference evaluation of the TREE in emulated single precision.
 * exactly-once family: random()/randint() occurrences; oracle: rng-draw hook count = occurrences rendered and the values
   are consecutive elements of the seed's PCG stream.
 * malformed family: must fail the transform."""
import math
import re

from . import core, exprref, geom, pcg32
from .exprref import Malformed, Str
from .f32 import fstr, f32

LEVEL = "exploration"
TECHNIQUE = "reference-model runtime oracle over expression trees (emulated IEEE single precision) + hook-counter / PCG-stream monitor for exactly-once evaluation"
LEVEL_TEXT = ("Held on the executions observed: ~3e5 generated expressions (trees to depth 8 over all operators and built-ins, in 7 "
              "attribute contexts) printed exactly the reference value (tolerance only for transcendental functions); in documents "
              "without forward references the PRNG advanced exactly once per rendered random call with the reference stream's values; "
              "malformed expressions failed the transform. Exploration: the space of expression trees is sampled.")
LEVEL_NOTE = ("Trusted: the reference evaluator (monitors/exprref.py) and f32 emulation via struct packing; libm differences are "
              "absorbed by a 0.002+1e-5|v| tolerance for trigonometric/exp/log/pow/hypot results only. List variables are used only "
              "where a list is syntactically valid (variables are substituted textually).")
BUDGET_S = {"quick": 150, "thorough": 1500}
FLOOR = {"quick": 200, "thorough": 5000}
RULE = ("documents of ~30 probes; a probe = one generated expression in one context; non-trivial = expression with >= 2 operators or "
        ">= 1 function call (value family), >= 1 random call (exactly-once family); distinct by hash(expression text, context)")
ASSUMPTIONS = ["numeric literals are short decimals (no double-rounding ambiguity when parsing to f32)"]

NUM_FUNCS_1 = ["abs", "ceil", "floor", "fract", "sign", "sqrt", "not"]
INEXACT_1 = ["log", "exp", "sin", "cos", "tan", "asin", "acos", "atan"]
CMP_FUNCS = ["eq", "ne", "lt", "le", "gt", "ge", "and", "or", "xor"]
VARS = {"a": 3.5, "b": -2.0, "c": 0.125, "d": 10.0, "z": 0.0, "n": -7.25}
LVARS = {"l": [1.0, 2.0, 3.0], "m": [4.5, -1.0], "k": [8.0]}


class TreeGen:
    def __init__(self, rng, inexact_ok=True):
        self.r = rng
        self.inexact = False
        self.inexact_ok = inexact_ok
        self.ops = 0
        self.calls = 0

    def literal(self):
        r = self.r
        k = r.random()
        if k < 0.5:
            return ("num", str(r.randint(0, 20)))
        if k < 0.75:
            return ("num", "%g" % (r.randint(0, 200) / 8.0))
        if k < 0.85:
            # note: no negative exponents ("2.5e-2"): svgdx's tokenizer does not accept them, and the documentation only
            # promises "floating point and negative numbers"
            return ("num", r.choice(["0.1", "3.7", "2.345", "100.01", "0.001", "1e3", "0.025", ".5", "7."]))
        if k < 0.93:
            return ("num", "-%d" % r.randint(1, 9))
        return ("num", r.choice(["0", "1", "255", "360", "1000000", "16777217", "0.0005"]))

    def num(self, d):
        r = self.r
        if d <= 0 or r.random() < 0.22:
            if r.random() < 0.3:
                return ("var", r.choice(list(VARS)))
            return self.literal()
        k = r.random()
        if k < 0.38:
            self.ops += 1
            return ("bin", r.choice(["+", "-", "*", "/", "%", "+", "-", "*"]), self.num(d - 1), self.num(d - 1))
        if k < 0.45:
            self.ops += 1
            return ("neg", self.num(d - 1))
        if k < 0.5:
            return ("paren", self.num(d - 1))
        if k < 0.58:
            self.ops += 1
            return ("cmp", r.choice(["eq", "ne", "lt", "le", "gt", "ge"]), self.num(d - 1), self.num(d - 1))
        if k < 0.65:
            self.ops += 1
            return ("log", r.choice(["and", "or", "xor"]), self.num(d - 1), self.num(d - 1))
        self.calls += 1
        f = r.random()
        if f < 0.2:
            return ("call", r.choice(NUM_FUNCS_1), [self.num(d - 1)])
        if f < 0.3 and self.inexact_ok:
            self.inexact = True
            return ("call", r.choice(INEXACT_1), [self.num(d - 1)])
        if f < 0.4:
            return ("call", r.choice(CMP_FUNCS), [self.num(d - 1), self.num(d - 1)])
        if f < 0.5:
            return ("call", r.choice(["min", "max", "sum", "product", "mean"]), self.args(d - 1, 1, 4))
        if f < 0.56:
            return ("call", "clamp", [self.num(d - 1), ("num", str(r.randint(-5, 2))), ("num", str(r.randint(3, 9)))])
        if f < 0.62:
            return ("call", "mix", [self.num(d - 1), self.num(d - 1), self.num(d - 1)])
        if f < 0.68:
            return ("call", "if", [self.num(d - 1), self.num(d - 1), self.num(d - 1)])
        if f < 0.73 and self.inexact_ok:
            self.inexact = True
            return ("call", "pow", [self.num(d - 1), ("num", r.choice(["2", "0.5", "3", "-1", "1.5"]))])
        if f < 0.8:
            items = self.args(d - 1, 1, 4)
            return ("call", "select", [("num", str(r.randint(0, len(items) - 1)))] + items)
        if f < 0.86:
            return ("call", r.choice(["count", "empty"]), self.args(d - 1, 0, 3))
        if f < 0.92:
            return ("call", "head", [self.lst(d - 1)])
        if f < 0.96:
            return ("call", "in", [self.num(d - 1)] + self.args(d - 1, 1, 3))
        return ("call", "head", [("call", "tail", [self.lst(d - 1)])])

    def args(self, d, lo, hi):
        r = self.r
        out = []
        for _ in range(r.randint(lo, hi)):
            if r.random() < 0.15:
                out.append(("var", r.choice(list(LVARS))))
            else:
                out.append(self.num(d))
        if not out and lo > 0:
            out.append(self.num(d))
        return out

    def lst(self, d):
        r = self.r
        k = r.random()
        if d <= 0 or k < 0.3:
            if r.random() < 0.4:
                return ("var", r.choice(["l", "m"]))
            return ("paren", ("list", [self.num(0) for _ in range(r.randint(2, 4))]))
        self.calls += 1
        if k < 0.4:
            return ("call", "divmod", [self.num(d - 1), ("num", r.choice(["3", "2.5", "-4", "7"]))])
        if k < 0.5:
            return ("call", "swap", [self.num(d - 1), self.num(d - 1)])
        if k < 0.6 and self.inexact_ok:
            self.inexact = True
            return ("call", r.choice(["r2p", "p2r"]), [self.num(d - 1), self.num(d - 1)])
        if k < 0.75:
            n = r.randint(1, 3)
            return ("call", r.choice(["addv", "subv"]), [self.num(d - 1) for _ in range(2 * n)])
        if k < 0.85:
            return ("call", "scalev", [self.num(d - 1)] + [self.num(d - 1) for _ in range(r.randint(1, 3))])
        if k < 0.92:
            return ("call", "tail", [self.lst(d - 1), self.num(0)])
        return ("paren", ("list", [self.num(d - 1), self.num(d - 1)]))


def ref_ctx(seed=None):
    v = {k: f32(x) for k, x in VARS.items()}
    v.update({k: list(x) for k, x in LVARS.items()})
    return exprref.Ctx(v, pcg32.Pcg32(seed) if seed is not None else None)


VAR_DECL = '<var %s/>' % " ".join('%s="%s"' % (k, ("%g" % v)) for k, v in VARS.items()) + \
           '<var %s/>' % " ".join('%s="%s"' % (k, ", ".join("%g" % x for x in v)) for k, v in LVARS.items())

STRING_CASES = [
    ("{{split(',', 'a,b,,c')}}", "'a', 'b', '', 'c'"), ("{{splitw('  a b\tc ')}}", "'a', 'b', 'c'"), ("{{trim('  x y ')}}", "'x y'"),
    ("{{join('-', 'a', 'b', 'c')}}", "'a-b-c'"), ("{{_('plain text')}}", "plain text"), ("{{_(join('', split(',', 'a,b')))}}", "ab"),
    ("{{in('b', 'a', 'b')}}", "1"), ("{{in('z', 'a', 'b')}}", "0"), ("{{eq('a', 'a')}}", "1"), ("{{ne('a', 'b')}}", "1"),
    ("{{count(split(' ', 'a b c'))}}", "3"), ("{{head(split(' ', 'x y'))}}", "'x'"), ("{{if(1, 'yes', 'no')}}", "'yes'"),
    ("{{select(1, 'p', 'q', 'r')}}", "'q'"), ("{{_(trim(' t '))}}", "t"), ("{{swap('a', 1)}}", "1, 'a'"),
    ("{{_('it\\'s')}}", "it's"), ("{{count()}}", "0"), ("{{empty()}}", "1"), ("{{tail(1)}}", ""), ("{{head()}}", ""),
]

MALFORMED = ["(1+2", "1+2)", "((1)", "nosuchfn(1)", "abs()", "abs(1, 2)", "pow(2)", "clamp(1, 2)", "$undefined_var + 1", "1 +", "* 2", "1 2",
             "min()", "mix(1,2)", "if(1,2)", "select(5, 1, 2)", "eq(1)", "1 lt", "and 1", "sin", "abs 1", "1,,2", "(,)", "addv(1,2,3)",
             "$p + 1", "${q}", "divmod(1)", "r2p(1)", "randint(5, 1)", "clamp(1, 5, 2)", "join()", "split('a')", "trim(1)", "'unterminated"]

# every function with a fixed number of arguments, called with one too few, one and two too many (written out, and with the surplus
# hidden in a two-valued sub-expression)
FIXED_ARITY = {0: ["random"],
               1: "abs ceil floor fract sign sqrt log exp sin cos tan asin acos atan not".split(),
               2: "divmod pow randint r2p p2r eq ne lt le gt ge and or xor swap".split(),
               3: "clamp mix if".split()}


def arity_malformed():
    out = []
    vals = ["1", "2", "3", "4", "5"]
    for n, names in FIXED_ARITY.items():
        for f in names:
            for k in (n - 1, n + 1, n + 2):
                if k < 0:
                    continue
                out.append("%s(%s)" % (f, ", ".join(vals[:k])))
                if k >= 2:
                    out.append("%s(%s)" % (f, ", ".join(["swap(1, 2)"] + vals[2:k])))
    return out


MALFORMED += [e for e in arity_malformed() if e not in MALFORMED]

CONTEXTS = ["text", "text", "text", "geom", "var", "comment", "loop", "if", "for"]


def close(a, b, inexact):
    if a == b:
        return True
    try:
        x, y = float(a), float(b)
    except ValueError:
        return False
    if x != x or y != y or math.isinf(x) or math.isinf(y):
        return (x != x and y != y) or x == y
    if inexact:
        return abs(x - y) <= 0.002 + 2e-4 * max(abs(x), abs(y))
    return abs(x - y) <= 0.0


def compare_values(exp_s, got_s, inexact):
    """both are the rendered strings ('1, 2.5, NaN')"""
    if exp_s == got_s:
        return True
    e, g = [t.strip() for t in exp_s.split(",")], [t.strip() for t in got_s.split(",")]
    if len(e) != len(g):
        return False
    return all(close(a, b, inexact) for a, b in zip(e, g))


def build_probe(i, ctxk, expr_text):
    """returns the XML for probe i"""
    e = expr_text.replace("&", "&amp;").replace("<", "&lt;").replace('"', "&quot;")
    if ctxk == "text":
        return '<text id="p%d" xy="0 %d" text="[{{%s}}]"/>' % (i, i, e)
    if ctxk == "geom":
        return '<rect id="p%d" x="{{%s}}" y="%d" wh="1"/>' % (i, e, i)
    if ctxk == "var":
        return '<var v%d="{{%s}}"/><text id="p%d" xy="0 %d" text="[$v%d]"/>' % (i, e, i, i, i)
    if ctxk == "comment":
        return '<rect id="p%d" xy="0 %d" wh="1" _="P%d=[{{%s}}]"/>' % (i, i, i, e)
    if ctxk == "loop":
        return '<g id="p%d"><loop count="{{%s}}"><rect xy="0 %d" wh="1"/></loop></g>' % (i, e, i)
    if ctxk == "if":
        return '<g id="p%d"><if test="%s"><rect xy="0 %d" wh="1"/></if></g>' % (i, e if i % 2 else "{{%s}}" % e, i)
    if ctxk == "for":
        return '<g id="p%d"><for var="q" data="%s"><text xy="0 %d" text="[$q]"/></for></g>' % (i, e, i)
    raise ValueError(ctxk)


def read_probe(i, ctxk, ids, out_text):
    el = ids.get("p%d" % i)
    if ctxk in ("text", "var"):
        if el is None:
            return None
        t = el.all_text()
        return t[1:-1] if t.startswith("[") and t.endswith("]") else t
    if ctxk == "geom":
        return None if el is None else el.attrs.get("x", "0")
    if ctxk == "comment":
        m = re.search(r"<!-- P%d=\[(.*?)\] -->" % i, out_text, re.S)
        return m.group(1) if m else None
    if ctxk == "loop" or ctxk == "if":
        return None if el is None else str(len(el.find_all("rect")))
    if ctxk == "for":
        return None if el is None else ", ".join(t.all_text()[1:-1] for t in el.find_all("text"))
    return None


def expected_for(ctxk, val):
    """(expected string, judged?)"""
    s = exprref.show(val)
    flatv = val if isinstance(val, list) else [val]
    if "NAN-ORDER" in s:
        return None
    if ctxk in ("text", "var", "comment"):
        return s
    if ctxk == "geom":
        if isinstance(val, list) or not isinstance(val, float) or val != val or math.isinf(val) or abs(val) > 1e6:
            return None
        return fstr(f32(float(fstr(val)))) if False else s
    if ctxk == "loop":
        return None   # handled by caller (needs a small non-negative integer)
    if ctxk == "if":
        if isinstance(val, list) or not isinstance(val, float) or val != val:
            return None
        if val != 0 and abs(val) < 0.01:
            return None     # svgdx decides on the 3-decimal rendering of the value; tiny non-zero values are not judged
        return "1" if val != 0 else "0"
    if ctxk == "for":
        if not all(isinstance(x, float) for x in exprref.flat(flatv)):
            return None
        return ", ".join(fstr(x) for x in exprref.flat(flatv))
    return None


def run_doc(ctx, probes, cfg=None):
    body = VAR_DECL + "\n" + "\n".join(build_probe(i, k, t) for i, (k, t) in enumerate(probes))
    doc = "<svg>\n" + body + "\n</svg>"
    r = ctx.run(doc, dict(cfg or {}, auto=False))
    return doc, r


def shrink(ctx, tree, ctxk, inexact):
    """descend to a minimal failing sub-tree; returns a short description of its root"""
    rng = core.named_rng("shrink")
    cur = tree
    for _ in range(12):
        kids = []
        k = cur[0]
        if k in ("bin", "cmp", "log"):
            kids = [cur[2], cur[3]]
        elif k in ("neg", "paren"):
            kids = [cur[1]]
        elif k == "call":
            kids = list(cur[2])
        elif k == "list":
            kids = list(cur[1])
        nxt = None
        for kid in kids:
            if kid[0] in ("num", "var", "str"):
                continue
            try:
                val = exprref.eval_tree(kid, ref_ctx())
            except Malformed:
                continue
            exp = expected_for("text", val)
            if exp is None:
                continue
            text = exprref.render(kid, rng)
            doc, r = run_doc(ctx, [("text", text)])
            got = None
            if r.ok:
                got = read_probe(0, "text", geom.by_id(geom.parse_out(r.out)), r.out.decode("utf-8", "replace"))
            if got is None or not compare_values(exp, got, inexact):
                nxt = kid
                break
        if nxt is None:
            break
        cur = nxt
    k = cur[0]
    if k in ("bin", "cmp", "log"):
        return "%s(%s)" % (k, cur[1])
    if k == "call":
        return "call(%s)" % cur[1]
    return k


def check_case(ctx, case):
    acc = ctx.acc
    fam = case["family"]
    acc.cases += 1
    if fam == "value":
        probes = case["probes"]       # list of dicts: ctx, text, expected, inexact, nontrivial, tree
        doc, r = run_doc(ctx, [(p["ctx"], p["text"]) for p in probes])
        if r.crashed:
            acc.count("crashed(C01's business)")
            return
        if not r.ok:
            # find the culprit probe(s) by running them individually
            for p in probes:
                d1, r1 = run_doc(ctx, [(p["ctx"], p["text"])])
                if not r1.ok and not r1.crashed:
                    where = shrink(ctx, p["tree"], p["ctx"], p["inexact"]) if p.get("tree") else "?"
                    acc.violation("rejected", "rejected:%s/%s" % (p["ctx"], where), dict(family="value", probes=[p]),
                                  observed=core.trunc(r1.err, 300), expected=p["expected"], what="valid expression rejected: {{%s}} -> %s" % (p["text"], core.trunc(r1.err, 150)))
                    return
            acc.inconc("doc-fails-but-no-single-probe-does")
            return
        out_text = r.out.decode("utf-8", "replace")
        ids = geom.by_id(geom.parse_out(r.out))
        for i, p in enumerate(probes):
            if p.get("nontrivial"):
                acc.nontriv(core.chash(p["text"], p["ctx"]), ["ctx." + p["ctx"]] + p.get("feats", []))
            got = read_probe(i, p["ctx"], ids, out_text)
            if got is None or not compare_values(p["expected"], got, p["inexact"]):
                where = shrink(ctx, p["tree"], p["ctx"], p["inexact"]) if p.get("tree") else "?"
                acc.violation("value-differs", "value-differs:%s/%s" % (p["ctx"], where), dict(family="value", probes=[p]),
                              observed=got, expected=p["expected"], what="{{%s}} in context %s gave %r, reference %r" % (p["text"], p["ctx"], got, p["expected"]))
    elif fam == "string":
        doc, r = run_doc(ctx, [("text", t[2:-2]) for t, _ in case["cases"]])
        if not r.ok:
            acc.violation("rejected", "rejected:string-functions", case, observed=core.trunc(r.get("err"), 300), expected="Ok")
            return
        ids = geom.by_id(geom.parse_out(r.out))
        for i, (t, exp) in enumerate(case["cases"]):
            got = read_probe(i, "text", ids, "")
            acc.nontriv(core.chash(t, "string"), ["string-function"])
            if got != exp:
                acc.violation("value-differs", "value-differs:string/%s" % re.sub(r"\W.*", "", t[2:]), dict(family="string", cases=[[t, exp]]), observed=got, expected=exp,
                              what="%s gave %r, expected %r" % (t, got, exp))
    elif fam == "malformed":
        e = case["expr"]
        for ck in ("text", "geom", "var", "if"):
            pre = '<var p="$q"/><var q="$p"/>' if ("$p" in e or "${q}" in e) else ""
            doc = "<svg>" + VAR_DECL + pre + build_probe(0, ck, e) + "</svg>"
            r = ctx.run(doc, dict(auto=False))
            acc.nontriv(core.chash(e, ck, "malformed"), ["malformed", "ctx." + ck])
            if r.ok:
                m_ = re.match(r"[a-z0-9_]+(?=\()", e)
                acc.violation("malformed-accepted", "malformed-accepted:%s/%s" % (ck, m_.group(0) if m_ else "syntax"), dict(family="malformed", expr=e), observed=core.trunc(r.out, 400), expected="Err",
                              what="malformed expression {{%s}} yielded a value in context %s" % (e, ck))
    elif fam == "once":
        check_once(ctx, case)


# ------------------------------------------------------------------------------------------------
# exactly-once family

def once_parts(rng):
    """a document without forward references, as a list of independent parts.
    part = dict(kind, xml, plan=[("f",)|("i",lo,hi) ...] in evaluation order, obs=(probe id, how to read, count))"""
    r = rng
    seed = r.choice([0, 1, 7, 42, 999, 2 ** 40 + 3])
    parts = []
    for i in range(r.randint(2, 8)):
        plan = []

        def call():
            if r.random() < 0.5:
                plan.append(["f"])
                return "random()"
            lo, hi = r.randint(-5, 5), r.randint(6, 50)
            kk = r.random()
            if kk < 0.12:
                hi = lo                      # single-value range: still one occurrence, one draw
            elif kk < 0.2:
                hi = lo + 1
            plan.append(["i", lo, hi])
            return "randint(%d, %d)" % (lo, hi)

        k = r.choice(["text", "text", "attr", "var", "loop", "two", "group-attr", "id", "reuse-attr", "if", "comment", "class", "loop-count", "loop-start"])
        if k == "text":
            xml, obs = '<text id="o%d" xy="0 %d" text="[{{%s}}]"/>' % (i, i, call()), ["o%d" % i, "text", 1]
        elif k == "two":
            xml, obs = '<text id="o%d" xy="0 %d" text="[{{%s}}|{{%s}}]"/>' % (i, i, call(), call()), ["o%d" % i, "text2", 2]
        elif k == "attr":
            xml, obs = '<rect id="o%d" x="{{%s}}" y="%d" wh="1"/>' % (i, call(), i), ["o%d" % i, "x", 1]
        elif k == "var":
            xml, obs = '<var w%d="{{%s}}"/><text id="o%d" xy="0 %d" text="[$w%d|$w%d]"/>' % (i, call(), i, i, i, i), ["o%d" % i, "var2", 1]
        elif k == "loop":
            c = r.randint(0, 3)
            one = call()
            entry = plan.pop()
            plan += [entry] * c
            xml, obs = '<g id="o%d"><loop count="%d"><text xy="0 %d" text="[{{%s}}]"/></loop></g>' % (i, c, i, one), ["o%d" % i, "loop", c]
        elif k == "loop-count":
            # the occurrence sits in the loop's control attribute: drawn once when the loop is entered; the number of passes shows it
            lo = r.randint(0, 2)
            hi = lo + r.randint(0, 3)
            plan.append(["i", lo, hi])
            xml, obs = '<g id="o%d"><loop count="{{randint(%d, %d)}}"><text xy="0 %d" text="[x]"/></loop></g>' % (i, lo, hi, i), ["o%d" % i, "passes", 1]
        elif k == "loop-start":
            lo = r.randint(-5, 5)
            hi = lo + r.randint(0, 9)
            plan.append(["i", lo, hi])
            xml, obs = '<g id="o%d"><loop count="%d" loop-var="lv%d" start="{{randint(%d, %d)}}" step="100"><text xy="0 %d" text="[$lv%d]"/></loop></g>' % (
                i, r.randint(1, 3), i, lo, hi, i, i), ["o%d" % i, "first-text", 1]
        elif k == "if":
            t = r.randint(0, 1)
            one = call()
            if not t:
                plan.pop()
            xml, obs = '<g id="o%d"><if test="%d"><text xy="0 %d" text="[{{%s}}]"/></if></g>' % (i, t, i, one), ["o%d" % i, "loop", t]
        elif k == "group-attr":
            xml = '<g id="o%d" kk="{{%s}}"><text xy="0 %d" text="[$kk]"/><text xy="5 %d" text="[$kk]"/></g>' % (i, call(), i, i)
            obs = ["o%d" % i, "group2", 1]
        elif k == "id":
            plan.append(["i", 100, 999])
            xml, obs = '<rect id="r{{randint(100, 999)}}" class="o%d" xy="0 %d" wh="1"/>' % (i, i), ["o%d" % i, "id", 1]
        elif k == "reuse-attr":
            xml = '<specs><text id="tp%d" text="[$kk|$kk]"/></specs><reuse id="o%d" href="#tp%d" kk="{{%s}}" x="0" y="%d"/>' % (i, i, i, call(), i)
            obs = ["o%d" % i, "reuse2", 1]
        elif k == "comment":
            xml, obs = '<rect id="o%d" xy="0 %d" wh="1" _="O%d=[{{%s}}]"/>' % (i, i, i, call()), ["O%d" % i, "comment", 1]
        else:
            plan.append(["i", 1, 9])
            # (no space inside the expression: a class attribute is split on spaces before evaluation)
            xml, obs = '<rect id="o%d" xy="0 %d" wh="1" class="c{{randint(1,9)}}"/>' % (i, i), ["o%d" % i, "class", 1]
        parts.append(dict(kind=k, xml=xml, plan=plan, obs=obs))
    return seed, parts


def once_eval(ctx, case, seed, parts, report):
    """run the parts as one document; returns None if fine, else (clause, detail). With report=True records violations."""
    acc = ctx.acc
    doc = "<svg>\n" + "\n".join(p["xml"] for p in parts) + "\n</svg>"
    r = ctx.run(doc, dict(seed=seed, auto=False))
    if r.crashed:
        acc.count("crashed(C01's business)")
        return None
    if not r.ok:
        return ("rejected", core.trunc(r.err, 300), None, None)
    plan = [e for p in parts for e in p["plan"]]
    draws = (r.get("ctr") or {}).get("rng_draws", 0)
    g = pcg32.Pcg32(seed)
    expv = [fstr(f32(g.random_f32())) if e[0] == "f" else str(g.randint(e[1], e[2])) for e in plan]
    root = geom.parse_out(r.out)
    ids = geom.by_id(root)
    out_text = r.out.decode("utf-8", "replace")
    got = []
    twice = []
    for p in parts:
        oid, kind, cnt = p["obs"]
        if kind == "id":
            els = [e for e in root.iter() if oid in e.classes()]
            got.append(els[0].attrs.get("id", "")[1:] if len(els) == 1 else "?")
            continue
        if kind == "comment":
            m = re.search(r"<!-- %s=\[(.*?)\] -->" % oid, out_text)
            got.append(m.group(1) if m else "?")
            continue
        el = ids.get(oid)
        if el is None:
            got.append("?")
            continue
        if kind == "text":
            got.append(el.all_text()[1:-1])
        elif kind == "text2":
            got += el.all_text()[1:-1].split("|")
        elif kind == "x":
            got.append(el.attrs.get("x", "0"))
        elif kind == "class":
            got.append(" ".join(el.classes())[1:])
        elif kind in ("var2", "reuse2"):
            a, b = (el.all_text()[1:-1].split("|") + ["?", "?"])[:2]
            got.append(a)
            if a != b:
                twice.append((p["kind"], [a, b]))
        elif kind == "group2":
            ts = [t.all_text()[1:-1] for t in el.find_all("text")]
            got.append(ts[0] if ts else "?")
            if len(set(ts)) != 1:
                twice.append((p["kind"], ts))
        elif kind == "loop":
            got += [t.all_text()[1:-1] for t in el.find_all("text")]
        elif kind == "passes":
            got.append(str(len(el.find_all("text"))))
        elif kind == "first-text":
            ts = [t.all_text()[1:-1] for t in el.find_all("text")]
            got.append(ts[0] if ts else "?")
    if twice:
        return ("value-re-evaluated", twice, got, expv)
    if draws != len(plan):
        return ("draws!=occurrences", dict(rng_draws=draws, occurrences=len(plan)), got, expv)
    if got != expv:
        return ("values-not-consecutive-stream", None, got, expv)
    return None


def check_once(ctx, case):
    acc = ctx.acc
    seed, parts = case["seed"], case["parts"]
    if any(p["plan"] for p in parts):
        acc.nontriv(core.chash(seed, [p["xml"] for p in parts]), sorted(set("once." + p["kind"] for p in parts)))
    bad = once_eval(ctx, case, seed, parts, True)
    if bad is None:
        return
    # isolate: which part(s) violate on their own?
    culprits = []
    for p in parts:
        b1 = once_eval(ctx, case, seed, [p], False)
        if b1 is not None:
            culprits.append((p, b1))
    if not culprits:
        acc.violation("once-" + bad[0], "once:%s/interaction" % bad[0], case, observed=dict(detail=bad[1], values=bad[2]), expected=dict(values=bad[3]),
                      what="%s: only in combination (no single construct fails alone)" % bad[0])
        return
    seen = set()
    for p, b1 in culprits:
        sig = "once:%s/%s" % (b1[0], p["kind"])
        if sig in seen:
            continue
        seen.add(sig)
        acc.violation("once-" + b1[0], sig, dict(family="once", seed=seed, parts=[p]), observed=dict(detail=b1[1], values=b1[2]), expected=dict(values=b1[3]),
                      what="random call in construct '%s': %s (%s)" % (p["kind"], b1[0], b1[1]))


# ------------------------------------------------------------------------------------------------

def inexact_tree(rng):
    """one transcendental function applied to a well-conditioned exact argument, inside continuous exact arithmetic"""
    tg = TreeGen(rng, inexact_ok=False)
    f = rng.choice(INEXACT_1 + ["pow", "sqrt", "r2p", "p2r"])
    small = lambda: ("num", "%g" % (rng.randint(-80, 80) / 8.0))       # noqa: E731
    if f in ("sin", "cos", "tan", "atan"):
        arg = ("num", str(rng.choice([0, 30, 45, 60, 10, 17.5, 100, -33, 200, 359, 720, 1.5]))) if f != "atan" else small()
        if f == "tan":
            arg = ("num", str(rng.choice([0, 30, 45, 60, 10, 17.5, -33, 100, 200])))
        call = ("call", f, [arg])
    elif f in ("asin", "acos"):
        call = ("call", f, [("num", rng.choice(["0", "0.5", "-0.25", "1", "-1", "0.125", "0.9"]))])
    elif f == "log":
        call = ("call", f, [("num", rng.choice(["1", "2", "10", "0.5", "100", "2.718"]))])
    elif f == "exp":
        call = ("call", f, [("num", rng.choice(["0", "1", "-1", "2.5", "5", "-3"]))])
    elif f == "pow":
        call = ("call", f, [("num", rng.choice(["2", "10", "0.5", "3.5", "7"])), ("num", rng.choice(["2", "0.5", "3", "-1", "1.5"]))])
    elif f == "sqrt":
        call = ("call", f, [("num", rng.choice(["2", "10", "0.5", "16", "7", "0"]))])
    elif f == "r2p":
        call = ("call", "head" if rng.random() < 0.5 else "sum", [("call", "r2p", [small(), small()])])
    else:
        call = ("call", "sum", [("call", "p2r", [small(), ("num", str(rng.choice([0, 30, 45, 90, 135, 200, -60])))])])
    k = rng.random()
    if k < 0.4:
        return call
    return ("bin", rng.choice(["+", "-", "*"]), small(), call) if k < 0.7 else ("bin", rng.choice(["+", "-"]), call, small())


def gen_probe(rng, i):
    ctxk = rng.choice(CONTEXTS)
    if rng.random() < 0.2 and ctxk in ("text", "var", "comment", "geom"):
        tree = inexact_tree(rng)
        try:
            val = exprref.eval_tree(tree, ref_ctx())
        except Malformed:
            return None
        exp = expected_for(ctxk, val)
        if exp is None:
            return None
        return dict(ctx=ctxk, text=exprref.render(tree, rng), expected=exp, inexact=True, nontrivial=True, tree=tree, feats=["inexact-function"])
    tg = TreeGen(rng, inexact_ok=False)
    d = rng.choice([1, 2, 2, 3, 3, 4, 5, 6, 8])
    if ctxk == "for":
        tree = ("list", [tg.num(d - 1) for _ in range(rng.randint(1, 4))]) if rng.random() < 0.6 else tg.lst(d)
    elif ctxk == "loop":
        inner = tg.num(d)
        tree = ("bin", "%", ("call", "floor", [("call", "abs", [inner])]), ("num", "4"))
    elif rng.random() < 0.15 and ctxk in ("text", "var", "comment"):
        tree = ("list", [tg.num(d - 1) for _ in range(rng.randint(2, 3))]) if rng.random() < 0.5 else tg.lst(d)
    else:
        tree = tg.num(d)
    rc = ref_ctx()
    try:
        val = exprref.eval_tree(tree, rc)
    except Malformed:
        return None
    if rc.div_by_zero:
        return None      # the sign of a zero (e.g. of an empty sum) is not fixed by 'conventional semantics': not judged
    if ctxk == "loop":
        if not isinstance(val, float) or val != val:
            return None
        exp = str(int(val))
    else:
        exp = expected_for(ctxk, val)
    if exp is None:
        return None
    if ctxk == "geom" and tg.inexact:
        pass
    text = exprref.render(tree, rng)
    feats = []
    return dict(ctx=ctxk, text=text, expected=exp, inexact=tg.inexact, nontrivial=(tg.ops >= 2 or tg.calls >= 1), tree=tree, feats=feats)


def run_shard(ctx):
    acc = ctx.acc
    rng = ctx.rng("expr")
    ndocs = 1200 if ctx.quick() else 40000
    for j in range(ndocs):
        if ctx.out_of_time():
            acc.notes.append("time budget reached after %d docs" % j)
            break
        probes = []
        while len(probes) < 30:
            p = gen_probe(rng, len(probes))
            if p is not None:
                probes.append(p)
        check_case(ctx, dict(family="value", probes=probes))
        if j < 2:
            acc.sample(dict(family="value", context=probes[0]["ctx"], expression=probes[0]["text"], expected=probes[0]["expected"]))
        # exactly-once documents
        for _ in range(4):
            seed, parts = once_parts(rng)
            check_case(ctx, dict(family="once", seed=seed, parts=parts))
            if j == 0:
                acc.sample(dict(family="once", seed=seed, input=[p["xml"] for p in parts]))
    if ctx.mine(0):
        check_case(ctx, dict(family="string", cases=STRING_CASES))
    for i, e in enumerate(MALFORMED):
        if ctx.mine(i):
            check_case(ctx, dict(family="malformed", expr=e))
