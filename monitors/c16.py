"""C16 Loops and conditionals render exactly what their unrolling renders.

Translation validation: every generated program P (loop count / while / until, for, if, nested, with relative
positioning across iterations, text, variable updates) is mechanically unrolled into a loop-free twin U(P); both are
transformed by the real code and the element trees (names, attributes, text; whitespace-only text ignored) and the
root extent must be equal."""
import re

from . import core, xmlcanon
from .f32 import rust_display_f64

LEVEL = "translation_validation"
TECHNIQUE = "translation validation: program vs mechanically unrolled twin, both executed by the real code, canonical output trees compared"
LEVEL_TEXT = ("Held on the program pairs observed: ~2e4 generated programs with loops (count with integer / fractional / negative start and "
              "step, while and until over counters, for over lists with idx-var) and conditionals, nested to depth 3, with '^' positioning "
              "across iterations, text and variable updates: output tree and root extent equal to those of the unrolled twin. "
              "Translation validation is the right level: the property is an equivalence between two programs.")
LEVEL_NOTE = ("Trusted: the unroller (iteration counts are known to the generator; loop variable values are written as svgdx prints them: "
              "shortest round-trip decimal of an f64). Whitespace-only text is ignored. Loop bodies contain no forward references (what a "
              "retried loop does is C15's known finding, not this property).")
BUDGET_S = {"quick": 120, "thorough": 1200}
FLOOR = {"quick": 200, "thorough": 5000}
RULE = ("program pairs (P, unroll(P)); non-trivial = some construct executes 0 or >= 2 times, or constructs are nested; distinct by hash(P)")
ASSUMPTIONS = ["iteration counts <= 6 per loop, nesting <= 3"]


class Gen16:
    def __init__(self, rng):
        self.r = rng
        self.n = 0
        self.nontrivial = False
        self.feats = set()
        self.counters = 0

    def shape(self, env_names):
        r = self.r
        self.n += 1
        k = r.random()
        v = r.choice(env_names) if env_names and r.random() < 0.6 else None
        if k < 0.45:
            pos = r.choice(['xy="^|h 2"', 'xy="^|v 1"', 'xy="^@br"', 'xy="^|H 1.5"', 'xy="%d %d"' % (r.randint(-10, 30), r.randint(-10, 30))])
            if v and r.random() < 0.5:
                pos = 'xy="{{$%s * 4}} {{$%s + 1}}"' % (v, v)
            txt = ' text="n%d%s"' % (self.n, (":$" + v) if v else "") if r.random() < 0.5 else ""
            return '<rect %s wh="%s"%s/>' % (pos, r.choice(["3", "2 4", "5 1"]), txt)
        if k < 0.6:
            return '<circle xy="^|h 1" r="%s"/>' % r.choice(["1", "2.5"])
        if k < 0.8:
            return '<text xy="^|v 2" text="t%d[%s]"/>' % (self.n, "|".join("$" + e for e in env_names) if env_names else "-")
        if k < 0.9:
            return '<line xy1="^@r" xy2="^@r 4 %d"/>' % r.randint(-3, 3)
        return '<rect cxy="^@c" wh="%s" class="c%d"/>' % (r.choice(["1", "6 6"]), self.n)

    def block(self, depth, env_names, budget):
        r = self.r
        out = []
        for _ in range(r.randint(1, 3)):
            k = r.random()
            if depth >= 3 or k < 0.45 or budget[0] <= 0:
                out.append(("raw", self.shape(env_names)))
            elif k < 0.55 and env_names:
                nm = r.choice(env_names)
                out.append(("raw", '<var acc="${acc}%s"/>' % r.choice(["x", "y"])))
                out.append(("raw", '<text xy="^|v 1" text="acc=$acc %s=$%s"/>' % (nm, nm)))
            elif k < 0.62:
                # a group always starts with a shape, so it has a bounding box and can be the target of a following '^'
                out.append(("g", r.choice(["", ' class="grp"', ' transform="translate(2 3)"']),
                            [("raw", self.shape(env_names))] + self.block(depth + 1, env_names, budget)))
            elif k < 0.8:
                budget[0] -= 1
                out.append(self.loop(depth, env_names, budget))
            elif k < 0.83:
                budget[0] -= 1
                # string items (the empty string among them): the body only prints the variable, arithmetic is left to the index
                words = [r.choice(["a", "", "b c", "", "x", "0", " ", "é"]) for _ in range(r.randint(1, 4))]
                var = "s%d" % depth
                idx = ("j%d" % depth) if r.random() < 0.6 else None
                if r.random() < 0.6 or any("," in w or w.strip() != w for w in words):
                    data = ", ".join("'%s'" % w for w in words)
                    self.feats.add("for.strings")
                else:
                    data = "split(',', '%s')" % ",".join(words)
                    self.feats.add("for.strings-split")
                if "" in words:
                    self.feats.add("for.empty-item")
                self.nontrivial = True
                body = [("raw", '<text xy="^|v 1" text="item[$%s%s]"/>' % (var, ("|$" + idx) if idx else ""))]
                body += self.block(depth + 1, env_names + ([idx] if idx else []), budget)
                out.append(("for-str", data, words, var, idx, body))
                out.append(("raw", '<text xy="^|v 1" text="after[$%s%s]"/>' % (var, ("|$" + idx) if idx else "")))
            elif k < 0.9:
                budget[0] -= 1
                # numeric items only: bodies do arithmetic on the loop variable, and a failing body is retried by svgdx,
                # which is order-dependent (C15's known finding) and not what this property is about
                items = [r.choice(["1", "2.5", "0", "7", "10", "-3", "1+1", "0.125"]) for _ in range(r.randint(1, 4))]
                var = "q%d" % depth
                idx = ("j%d" % depth) if r.random() < 0.5 else None
                self.feats.add("for" + ("+idx" if idx else ""))
                if len(items) != 1 or depth > 0:
                    self.nontrivial = True
                if r.random() < 0.4:
                    # the loop's variable names are already defined when it starts ...
                    out.append(("raw", '<var %s="9"%s/>' % (var, (' %s="8"' % idx) if idx else "")))
                    self.feats.add("for.var-predefined")
                out.append(("for", items, var, idx, self.block(depth + 1, env_names + [var] + ([idx] if idx else []), budget)))
                if r.random() < 0.5:
                    # ... and read after it: they keep the last item / index, as after the unrolled assignments
                    out.append(("raw", '<text xy="^|v 1" text="after[$%s%s]"/>' % (var, ("|$" + idx) if idx else "")))
                    self.feats.add("for.var-read-after")
            else:
                budget[0] -= 1
                out.append(self.cond(depth, env_names, budget))
        return out

    def loop(self, depth, env_names, budget):
        r = self.r
        kind = r.choice(["count", "count", "count-var", "while", "until", "count-dyn"])
        if kind == "count-dyn":
            # the count is an expression over a variable that the body itself changes: it is fixed when the loop is entered
            self.counters += 1
            m = "m%d" % self.counters
            n = r.choice([1, 2, 3, 4])
            delta = r.choice([-1, -1, 1, 2])
            self.feats.add("loop.count-dyn")
            self.nontrivial = True
            body = self.block(depth + 1, env_names, budget)
            return ("count-dyn", n, m, delta, body)
        if kind in ("count", "count-var"):
            n = r.choice([0, 1, 2, 3, 4, 6])
            var = ("i%d" % depth) if (kind == "count-var" or r.random() < 0.6) else None
            start, step = "0", "1"
            if var and r.random() < 0.5:
                start = r.choice(["1", "-2", "0.5", "10", "-0.25", "0.1"])
                step = r.choice(["1", "2", "-1", "0.5", "0.1", "-1.5", "0"])
                self.feats.add("loop.start/step")
            self.feats.add("loop.count")
            if n != 1 or depth > 0:
                self.nontrivial = True
            body = self.block(depth + 1, env_names + ([var] if var else []), budget)
            if var and r.random() < 0.3:
                # the body's last element changes the loop variable itself: the next pass starts from start + k * step all the same
                body = body + [("raw", '<var %s="{{$%s + %d}}"/>' % (var, var, r.choice([10, -3, 1])))]
                self.feats.add("loop.body-writes-loop-var")
            return ("count", n, var, start, step, body)
        self.counters += 1
        c = "n%d" % self.counters
        limit = r.choice([0, 1, 2, 3])
        self.feats.add("loop." + kind)
        if limit != 1 or depth > 0:
            self.nontrivial = True
        lv = None
        if r.random() < 0.5:
            # a loop variable on a while / until loop: assigned for every pass that runs (and only then), readable after the loop
            lv = ("w%d" % self.counters, r.choice([0, 1, -2, 5]), r.choice([1, 2, -1, 10]))
            self.feats.add("loop.%s+loop-var" % kind)
        body = self.block(depth + 1, env_names + [c] + ([lv[0]] if lv else []), budget)
        return (kind, c, limit, body, lv)

    def cond(self, depth, env_names, budget):
        r = self.r
        self.feats.add("if")
        ints = [e for e in env_names if e.startswith(("i", "j", "n"))]
        body = self.block(depth + 1, env_names, budget)
        if ints and r.random() < 0.6:
            v = r.choice(ints)
            form = r.choice(["mod2", "gt1", "eq0", "not", "minus2", "neg"])
            self.nontrivial = True
            return ("if-var", v, form, body)
        t = r.randint(0, 1)
        if depth > 0 or t == 0:
            self.nontrivial = True
        return ("if-lit", t, body)


IF_FORMS = {
    "mod2": ("{{$%s %% 2}}", lambda x: (x % 2) != 0),
    "gt1": ("gt($%s, 1)", lambda x: x > 1),
    "eq0": ("eq($%s, 0)", lambda x: x == 0),
    "not": ("{{not($%s)}}", lambda x: x == 0),
    "minus2": ("{{$%s - 2}}", lambda x: x - 2 != 0),          # any non-zero value is true, negative ones included
    "neg": ("{{0 - $%s}}", lambda x: x != 0),
}


def render(block, ind="  "):
    out = []
    for node in block:
        t = node[0]
        if t == "raw":
            out.append(ind + node[1])
        elif t == "g":
            out.append("%s<g%s>" % (ind, node[1]))
            out += render(node[2], ind + "  ")
            out.append("%s</g>" % ind)
        elif t == "count":
            _, n, var, start, step, body = node
            a = ' count="%d"' % n
            if var:
                a += ' loop-var="%s"' % var
                if (start, step) != ("0", "1"):
                    a += ' start="%s" step="%s"' % (start, step)
            out.append("%s<loop%s>" % (ind, a))
            out += render(body, ind + "  ")
            out.append("%s</loop>" % ind)
        elif t == "count-dyn":
            _, n, m, delta, body = node
            out.append('%s<var %s="%d"/>' % (ind, m, n))
            out.append('%s<loop count="%s">' % (ind, ("$" + m) if delta < 0 else "{{$%s}}" % m))
            out += render(body, ind + "  ")
            out.append('%s  <var %s="{{$%s + %d}}"/>' % (ind, m, m, delta))
            out.append("%s</loop>" % ind)
        elif t in ("while", "until"):
            _, c, limit, body, lv = node
            out.append('%s<var %s="0"/>' % (ind, c))
            cond = ("lt($%s, %d)" % (c, limit)) if t == "while" else ("ge($%s, %d)" % (c, limit))
            la = ""
            if lv:
                out.append('%s<var %s="77"/>' % (ind, lv[0]))
                la = ' loop-var="%s" start="%d" step="%d"' % lv
            out.append('%s<loop %s="%s"%s>' % (ind, t, cond, la))
            out += render(body, ind + "  ")
            out.append('%s  <var %s="{{$%s + 1}}"/>' % (ind, c, c))
            out.append("%s</loop>" % ind)
            if lv:
                out.append('%s<text xy="^|v 1" text="after[$%s]"/>' % (ind, lv[0]))
        elif t == "for":
            _, items, var, idx, body = node
            out.append('%s<for var="%s" data="%s"%s>' % (ind, var, ", ".join(items), (' idx-var="%s"' % idx) if idx else ""))
            out += render(body, ind + "  ")
            out.append("%s</for>" % ind)
        elif t == "for-str":
            _, data, words, var, idx, body = node
            out.append('%s<for var="%s" data="%s"%s>' % (ind, var, data, (' idx-var="%s"' % idx) if idx else ""))
            out += render(body, ind + "  ")
            out.append("%s</for>" % ind)
        elif t == "if-lit":
            out.append('%s<if test="%d">' % (ind, node[1]))
            out += render(node[2], ind + "  ")
            out.append("%s</if>" % ind)
        elif t == "if-var":
            out.append('%s<if test="%s">' % (ind, IF_FORMS[node[2]][0] % node[1]))
            out += render(node[3], ind + "  ")
            out.append("%s</if>" % ind)
    return out


def unroll(block, env, ind="  "):
    """env: name -> python number for integer-valued loop variables / counters / indices"""
    out = []
    for node in block:
        t = node[0]
        if t == "raw":
            out.append(ind + node[1])
        elif t == "g":
            out.append("%s<g%s>" % (ind, node[1]))
            out += unroll(node[2], env, ind + "  ")
            out.append("%s</g>" % ind)
        elif t == "count":
            _, n, var, start, step, body = node
            v, st = float(start), float(step)
            for _k in range(n):
                if var:
                    out.append('%s<var %s="%s"/>' % (ind, var, rust_display_f64(v)))
                    env = dict(env, **{var: v})
                out += unroll(body, env, ind)
                v = v + st
        elif t == "count-dyn":
            _, n, m, delta, body = node
            out.append('%s<var %s="%d"/>' % (ind, m, n))
            for _k in range(n):
                out += unroll(body, env, ind)
                out.append('%s<var %s="{{$%s + %d}}"/>' % (ind, m, m, delta))
        elif t in ("while", "until"):
            _, c, limit, body, lv = node
            out.append('%s<var %s="0"/>' % (ind, c))
            if lv:
                out.append('%s<var %s="77"/>' % (ind, lv[0]))
            for k in range(limit if t == "while" else max(1, limit)):
                e2 = dict(env, **{c: k})
                if lv:
                    v = lv[1] + k * lv[2]
                    out.append('%s<var %s="%s"/>' % (ind, lv[0], rust_display_f64(float(v))))
                    e2[lv[0]] = v
                out += unroll(body, e2, ind)
                out.append('%s<var %s="{{$%s + 1}}"/>' % (ind, c, c))
            if lv:
                out.append('%s<text xy="^|v 1" text="after[$%s]"/>' % (ind, lv[0]))
        elif t == "for":
            _, items, var, idx, body = node
            for j, it in enumerate(items):
                txt = it[1:-1] if it.startswith("'") else ("2" if it == "1+1" else it)
                out.append('%s<var %s="%s"/>' % (ind, var, txt))
                e2 = dict(env)
                if idx:
                    out.append('%s<var %s="%d"/>' % (ind, idx, j))
                    e2[idx] = j
                out += unroll(body, e2, ind)
        elif t == "for-str":
            _, data, words, var, idx, body = node
            for j, w in enumerate(words):
                out.append('%s<var %s="%s"/>' % (ind, var, w))
                e2 = dict(env)
                if idx:
                    out.append('%s<var %s="%d"/>' % (ind, idx, j))
                    e2[idx] = j
                out += unroll(body, e2, ind)
        elif t == "if-lit":
            if node[1]:
                out += unroll(node[2], env, ind)
        elif t == "if-var":
            if IF_FORMS[node[2]][1](env[node[1]]):
                out += unroll(node[3], env, ind)
    return out


def canon(out):
    evs = xmlcanon.parse_events(out, fragment=True)
    res = []
    for ev in evs:
        if ev[0] == "chars":
            if ev[1].strip():
                res.append(("chars", ev[1].strip()))
        elif ev[0] == "comment":
            continue
        else:
            res.append(ev[:3] if ev[0] == "start" else ev)
    return res


def construct_of(prog_text, idx_hint=None):
    m = re.findall(r"<(loop|for|if)\b([^>]*)>", prog_text)
    kinds = sorted(set((k + ("." + ("while" if "while=" in a else "until" if "until=" in a else "count") if k == "loop" else "")) for k, a in m))
    return "+".join(kinds) or "none"


def check_case(ctx, case):
    acc = ctx.acc
    acc.cases += 1
    if case.get("nontrivial"):
        acc.nontriv(core.chash(case["program"]), case.get("feats", []))
    r1 = ctx.run(case["program"], dict(auto=False))
    r2 = ctx.run(case["unrolled"], dict(auto=False))
    if r1.crashed or r2.crashed:
        acc.count("crashed(C01's business)")
        return
    kinds = construct_of(case["program"].decode())
    if r1.ok != r2.ok:
        acc.violation("success-differs", "success-differs:%s" % kinds, case, observed=dict(program="ok" if r1.ok else core.trunc(r1.err, 300), unrolled="ok" if r2.ok else core.trunc(r2.err, 300)),
                      expected="same outcome", what="program and its unrolling disagree on success")
        return
    if not r1.ok:
        acc.count("both-rejected")
        return
    a, b = canon(r1.out), canon(r2.out)
    if a != b:
        d = xmlcanon.first_diff(a, b)
        acc.violation("tree-differs", "tree-differs:%s" % kinds, case, observed=dict(index=d[0], program=d[1], unrolled=d[2]), expected="identical trees",
                      what="output of the program differs from output of its unrolling at event %d: %r vs %r" % (d[0], d[1], d[2]))


def make_case(rng):
    g = Gen16(rng)
    block = [("raw", '<rect xy="0 0" wh="2"/>'), ("raw", '<var acc="s"/>')] + g.block(0, [], [rng.randint(1, 5)])
    prog = "<svg>\n" + "\n".join(render(block)) + "\n</svg>"
    unr = "<svg>\n" + "\n".join(unroll(block, {})) + "\n</svg>"
    return dict(program=prog.encode(), unrolled=unr.encode(), nontrivial=g.nontrivial, feats=sorted(g.feats))


def run_shard(ctx):
    acc = ctx.acc
    rng = ctx.rng("prog")
    n = 9000 if ctx.quick() else 200000
    for j in range(n):
        if ctx.out_of_time():
            acc.notes.append("time budget reached after %d programs" % j)
            break
        case = make_case(rng)
        check_case(ctx, case)
        if j < 2:
            acc.sample(dict(program=case["program"].decode(), unrolled=core.trunc(case["unrolled"], 800)))
