"""Layout generator + reference layout engine (E5) shared by C08/C09/C10/C12/C13.

Generates documents of positioned elements whose geometry is defined relative to earlier elements, and computes
- from the documentation (layout.md, attribute-ref.md) and the property statements only - the bounding box
every element must end up with. All values are exact Fractions; with `exact=True` the generator rejects any element
whose box would not be printable exactly with 3 decimals (denominator must divide 8), so that output
comparison can demand exact equality."""
from fractions import Fraction as F

from .geom import Box, fmt, LOCS9, locspec_text

DIRS = "hHvV"
SCALARS = ["x", "x1", "x2", "cx", "y", "y1", "y2", "cy", "w", "h", "rx", "ry", "r"]
PCTS = [0, 25, 50, 75, 100, 150, -50]


def printable(v):
    return (F(v) * 8).denominator == 1


class El:
    def __init__(self, eid, shape, box, attrs, deps, children=None, line=None, feats=()):
        self.id, self.shape, self.box, self.attrs, self.deps = eid, shape, box, attrs, set(deps)
        self.children = children
        self.line = line          # for lines: ((x1,y1),(x2,y2))
        self.feats = set(feats)

    def render(self, indent="  "):
        a = " ".join('%s="%s"' % kv for kv in self.attrs)
        if self.children is not None:
            inner = "\n".join(c.render(indent + "  ") for c in self.children)
            return '%s<g id="%s"%s>\n%s\n%s</g>' % (indent, self.id, (" " + a) if a else "", inner, indent)
        return '%s<%s id="%s" %s/>' % (indent, self.shape, self.id, a)


class LayoutGen:
    def __init__(self, rng, exact=True, use_prev=True, shapes=None, forms=None, decimal=False):
        # decimal: coordinates and sizes in tenths / round numbers (not exact in binary floating point); implies exact=False,
        # the caller compares with a tolerance for the 3-decimal output rounding
        self.decimal = decimal
        if decimal:
            exact = False
        self.r = rng
        self.exact = exact
        self.use_prev = use_prev
        self.shapes = shapes or ["rect", "rect", "rect", "circle", "ellipse", "line", "box", "point"]
        self.forms = forms
        self.els = []        # top-level, in document order
        self.all = {}        # id -> El (including children)
        self.order = []      # ids in document order (children before their group's end)
        self.prev = None     # id that '^' denotes at the current point
        self.n = 0
        self.chain = {}      # id -> chain length

    # ------------------------------------------------------------------ helpers
    def g(self, lo=-30, hi=60, step=4):
        if self.decimal:
            step = 10
        return F(self.r.randint(lo * step, hi * step), step)

    def size(self):
        if self.decimal:
            return F(self.r.choice([10, 20, 30, 50, 100])) if self.r.random() < 0.4 else F(self.r.randint(0, 400), 10)
        return F(self.r.choice([0, 1, 2, 4, 6, 8, 10, 16, 20, 5, 3, 7]) * self.r.choice([1, 1, 1, 2]), self.r.choice([1, 1, 2]))

    def new_id(self):
        self.n += 1
        return "n%d" % self.n

    def pick_ref(self, candidates=None):
        """returns (ref text, El)"""
        cands = candidates if candidates is not None else [e for e in self.all.values() if e.box is not None]
        if not cands:
            return None
        if self.use_prev and self.prev is not None and self.r.random() < 0.3 and self.all[self.prev].box is not None:
            return "^", self.all[self.prev]
        e = self.r.choice(cands)
        return "#" + e.id, e

    def offset(self):
        r = self.r
        k = r.random()
        if k < 0.4:
            return ("pct", F(r.choice(PCTS + [10, 200, 125])))
        if k < 0.7:
            return ("abs", self.g(0, 12))
        return ("abs", -self.g(0, 12))

    def locspec(self):
        r = self.r
        if r.random() < 0.65:
            return r.choice(LOCS9)
        return (r.choice("trbl"), self.offset())

    def delta_pair(self):
        """optional 'dx dy' suffix: returns (text, dx, dy)"""
        r = self.r
        k = r.random()
        if k < 0.45:
            return "", F(0), F(0)
        dx = self.g(-8, 8)
        if k < 0.65:
            return " " + fmt(dx), dx, dx      # one value applies to both
        dy = self.g(-8, 8)
        return " %s%s%s" % (fmt(dx), r.choice([" ", ",", ", "]), fmt(dy)), dx, dy

    # ------------------------------------------------------------------ own size spellings
    def size_attrs(self, shape, w, h):
        r = self.r
        if shape in ("rect", "box"):
            k = r.random()
            if k < 0.5:
                return [("wh", fmt(w) if (w == h and r.random() < 0.6) else "%s %s" % (fmt(w), fmt(h)))]
            return [("width", fmt(w)), ("height", fmt(h))]
        if shape == "circle":
            return [("r", fmt(w / 2))] if r.random() < 0.6 else [("wh", fmt(w))]
        if shape == "ellipse":
            k = r.random()
            if k < 0.4:
                return [("rxy", "%s %s" % (fmt(w / 2), fmt(h / 2)))]
            if k < 0.7:
                return [("rx", fmt(w / 2)), ("ry", fmt(h / 2))]
            return [("wh", "%s %s" % (fmt(w), fmt(h)))]
        return []

    def own_size(self, shape):
        w, h = self.size(), self.size()
        if shape == "circle":
            # r = w/2 must be printable
            w = F(int(w * 4) // 2 * 2, 4)
            h = w
        if shape == "ellipse":
            w = F(int(w * 4) // 2 * 2, 4)
            h = F(int(h * 4) // 2 * 2, 4)
        return w, h

    # ------------------------------------------------------------------ element generation
    def add(self, depth=0, allow_group=True):
        """generate one element (retrying until its box is printable); returns El"""
        for _ in range(50):
            el = self._gen(depth, allow_group)
            if el is None:
                continue
            ok = True
            if (self.exact or self.decimal) and el.box is not None and el.children is None:
                vals = list(el.box.tuple()) + [el.box.cx, el.box.cy, el.box.w / 2, el.box.h / 2]
                if el.line:
                    vals += [el.line[0][0], el.line[0][1], el.line[1][0], el.line[1][1]]
                ok = (self.decimal or all(printable(v) for v in vals)) and el.box.w >= 0 and el.box.h >= 0
                if el.shape == "circle" and el.box.w != el.box.h:
                    ok = False
            if ok:
                return self._commit(el)
            self.n -= 1
        # fallback: absolute rect
        w, h = self.size(), self.size()
        x, y = self.g(), self.g()
        eid = self.new_id()
        return self._commit(El(eid, "rect", Box(x, y, x + w, y + h), [("xy", "%s %s" % (fmt(x), fmt(y))), ("wh", "%s %s" % (fmt(w), fmt(h)))], [], feats=["form.abs"]))

    def _commit(self, el):
        self.all[el.id] = el
        self.order.append(el.id)
        self.prev = el.id
        self.chain[el.id] = 1 + max([self.chain.get(d, 0) for d in el.deps] or [0])
        return el

    def _gen(self, depth, allow_group):
        r = self.r
        refs_exist = any(e.box is not None for e in self.all.values())
        if allow_group and depth < 2 and refs_exist and r.random() < 0.1:
            return self._gen_group(depth)
        shape = r.choice(self.shapes)
        forms = ["abs"]
        if refs_exist:
            forms = ["abs", "dir", "dir", "loc", "loc", "cxyloc", "axis", "axis", "axis1", "scalar", "relsize", "relsize"]
        if self.forms:
            forms = [f for f in forms if f in self.forms] or ["abs"]
        form = r.choice(forms)
        if shape == "line":
            return self._gen_line(form if refs_exist else "abs")
        if shape == "point":
            return self._gen_point(form if refs_exist else "abs")
        eid = self.new_id()
        w, h = self.own_size(shape)
        attrs = []
        deps = []
        feats = {"shape." + shape, "form." + form}
        size_attrs = self.size_attrs(shape, w, h)
        if form == "abs":
            x, y = self.g(), self.g()
            k = r.random()
            if shape in ("circle", "ellipse") and k < 0.35:
                attrs.append(("cxy", "%s %s" % (fmt(x + w / 2), fmt(y + h / 2))))
            elif shape in ("circle", "ellipse") and k < 0.5:
                attrs += [("cx", fmt(x + w / 2)), ("cy", fmt(y + h / 2))]
                feats.add("abs.per-axis")
            elif k < 0.75:
                attrs.append(("xy", "%s %s" % (fmt(x), fmt(y))))
            else:
                attrs += [("x", fmt(x)), ("y", fmt(y))]
                feats.add("abs.per-axis")
            if r.random() < 0.25:
                # a shift consumed when the element is resolved: dxy, or individual dx / dy
                dx, dy = self.g(-8, 8), self.g(-8, 8)
                kk = r.random()
                if kk < 0.4:
                    attrs.append(("dxy", "%s %s" % (fmt(dx), fmt(dy))))
                elif kk < 0.7:
                    attrs += [("dx", fmt(dx)), ("dy", fmt(dy))]
                elif kk < 0.85:
                    attrs.append(("dx", fmt(dx)))
                    dy = F(0)
                else:
                    attrs.append(("dy", fmt(dy)))
                    dx = F(0)
                x, y = x + dx, y + dy
                feats.add("abs.delta")
            box = Box(x, y, x + w, y + h)
        elif form == "dir":
            rt, re_ = self.pick_ref()
            deps.append(re_.id)
            if shape in ("rect", "box") and r.random() < 0.25:
                # a size delta on the element being placed: 'beside, centred' is about its final size
                a, b = self.g(-1, 8), self.g(-1, 8)
                a, b = max(a, -w / 2), max(b, -h / 2)
                kk = r.random()
                if kk < 0.4:
                    size_attrs = size_attrs + [("dw", fmt(a)), ("dh", fmt(b))]
                elif kk < 0.7:
                    size_attrs = size_attrs + [("dwh", "%s %s" % (fmt(a), fmt(b)))]
                elif kk < 0.85:
                    size_attrs = size_attrs + [("dw", fmt(a))]
                    b = F(0)
                else:
                    size_attrs = size_attrs + [("dh", fmt(b))]
                    a = F(0)
                w, h = w + a, h + b
                feats.add("dir.size-delta")
            d = r.choice(DIRS)
            gk = r.random()
            gap = F(0) if gk < 0.3 else self.g(-6, 10)
            gtxt = "" if gk < 0.15 else " " + fmt(gap)
            attrs.append(("xy", "%s|%s%s" % (rt, d, gtxt)))
            b = re_.box
            if d == "h":
                x, y = b.x2 + gap, b.cy - h / 2
            elif d == "H":
                x, y = b.x1 - gap - w, b.cy - h / 2
            elif d == "v":
                x, y = b.cx - w / 2, b.y2 + gap
            else:
                x, y = b.cx - w / 2, b.y1 - gap - h
            box = Box(x, y, x + w, y + h)
            feats.add("dir." + d)
            if gap < 0:
                feats.add("gap.negative")
        elif form in ("loc", "cxyloc"):
            rt, re_ = self.pick_ref()
            deps.append(re_.id)
            ls = self.locspec()
            px, py = re_.box.point(ls)
            dtxt, dx, dy = self.delta_pair()
            px, py = px + dx, py + dy
            feats.add("loc." + (ls if isinstance(ls, str) else "edge-" + ls[1][0] + ("-neg" if ls[1][1] < 0 else "")))
            if dtxt:
                feats.add("loc.delta")
            if form == "cxyloc":
                attrs.append(("cxy", "%s@%s%s" % (rt, locspec_text(ls), dtxt)))
                box = Box(px - w / 2, py - h / 2, px + w / 2, py + h / 2)
            else:
                attrs.append(("xy", "%s@%s%s" % (rt, locspec_text(ls), dtxt)))
                anchor = "tl"
                if r.random() < 0.4:
                    anchor = r.choice(["t", "tr", "r", "br", "b", "bl", "l", "c"])
                    attrs.append(("xy-loc", anchor))
                    feats.add("xy-loc." + anchor)
                ax = 0 if "l" in anchor else 2 if "r" in anchor else 1
                ay = 0 if "t" in anchor else 2 if "b" in anchor else 1
                x = px - [F(0), w / 2, w][ax]
                y = py - [F(0), h / 2, h][ay]
                box = Box(x, y, x + w, y + h)
        elif form == "axis":
            # per-axis reference: attribute kind decides which side of this element is placed
            rtx, rex = self.pick_ref()
            rty, rey = self.pick_ref()
            deps += [rex.id, rey.id]
            kx = r.choice(["x", "x1", "x2", "cx"]) if shape in ("rect", "box") else r.choice(["x", "x2", "cx"])
            ky = r.choice(["y", "y1", "y2", "cy"]) if shape in ("rect", "box") else r.choice(["y", "y2", "cy"])

            def axis_val(kind, ref, axis):
                k = r.random()
                if k < 0.35:
                    # bare reference: same kind of value as the attribute (x -> left, x2 -> right, cx -> centre)
                    base = {"x": ref.box.x1, "x1": ref.box.x1, "x2": ref.box.x2, "cx": ref.box.cx,
                            "y": ref.box.y1, "y1": ref.box.y1, "y2": ref.box.y2, "cy": ref.box.cy}[kind]
                    return "", base
                ls = self.locspec()
                px, py = ref.box.point(ls)
                feats.add("axis.loc")
                return "@" + locspec_text(ls), (px if axis == "x" else py)

            tx, vx = axis_val(kx, rex, "x")
            ty, vy = axis_val(ky, rey, "y")
            attrs.append((kx, rtx + tx))
            attrs.append((ky, rty + ty))
            x = vx - {"x": F(0), "x1": F(0), "cx": w / 2, "x2": w}[kx]
            y = vy - {"y": F(0), "y1": F(0), "cy": h / 2, "y2": h}[ky]
            box = Box(x, y, x + w, y + h)
        elif form == "axis1":
            # positioned on ONE axis only; the other axis keeps the SVG default (x / y = 0 for a rect, cx / cy = 0 for a round shape)
            rt1, re1 = self.pick_ref()
            deps.append(re1.id)
            ax = r.choice("xy")
            kinds = ["", "2", "c"] if shape not in ("rect", "box") else ["", "1", "2", "c"]
            kd = r.choice(kinds)
            name = ("c" + ax) if kd == "c" else (ax + kd)
            ls = self.locspec()
            px, py = re1.box.point(ls)
            v = px if ax == "x" else py
            attrs.append((name, "%s@%s" % (rt1, locspec_text(ls))))
            ext = w if ax == "x" else h
            start = v - {"": F(0), "1": F(0), "c": ext / 2, "2": ext}[kd]
            other = (h if ax == "x" else w)
            ostart = F(0) if shape in ("rect", "box") else -other / 2
            if ax == "x":
                box = Box(start, ostart, start + w, ostart + h)
            else:
                box = Box(ostart, start, ostart + w, start + h)
            feats.add("axis1." + ax)
        elif form == "scalar":
            rtx, rex = self.pick_ref()
            deps.append(rex.id)
            sx = r.choice(SCALARS if rex.box.w == rex.box.h else [s for s in SCALARS if s != "r"])
            sy = r.choice(SCALARS if rex.box.w == rex.box.h else [s for s in SCALARS if s != "r"])

            def delta():
                k = r.random()
                if k < 0.5:
                    return "", lambda v: v
                if k < 0.8:
                    d = self.g(-6, 6)
                    return " " + fmt(d), lambda v: v + d
                p = r.choice([25, 50, 75, 100, 150, 200])
                return " %d%%" % p, lambda v: v * p / 100

            dtx, fx = delta()
            dty, fy = delta()
            x = fx(rex.box.scalar(sx))
            y = fy(rex.box.scalar(sy))
            attrs.append(("x", "%s~%s%s" % (rtx, sx, dtx)))
            attrs.append(("y", "%s~%s%s" % (rtx, sy, dty)))
            feats |= {"scalar." + sx, "scalar." + sy}
            box = Box(x, y, x + w, y + h)
        elif form == "relsize":
            if shape not in ("rect", "box", "ellipse"):
                shape = "rect"
                feats = {"shape.rect", "form.relsize"}
            rt, re_ = self.pick_ref()
            deps.append(re_.id)
            # dw/dh: only on rect/box - what they do to a circle/ellipse is not stated by the property
            # (svgdx ignores them there), so it is not generated
            k = r.randrange(6 if shape in ("rect", "box") else 4)
            rw, rh = re_.box.w, re_.box.h
            if k == 0:
                size_attrs = [("wh", rt)]
                w, h = rw, rh
                feats.add("relsize.same")
            elif k == 1:
                p = r.choice([25, 50, 75, 100, 150, 200])
                size_attrs = [("wh", "%s %d%%" % (rt, p))]
                w, h = rw * p / 100, rh * p / 100
                feats.add("relsize.pct")
            elif k == 2:
                a, b = self.g(-2, 8), self.g(-2, 8)
                size_attrs = [("wh", "%s %s %s" % (rt, fmt(a), fmt(b)))]
                w, h = rw + a, rh + b
                feats.add("relsize.delta2")
            elif k == 3:
                sa, sb = r.choice(["w", "h", "rx", "ry"]), r.choice(["w", "h", "rx", "ry"])
                size_attrs = [("width", "%s~%s" % (rt, sa)), ("height", "%s~%s" % (rt, sb))]
                w, h = re_.box.scalar(sa), re_.box.scalar(sb)
                feats.add("relsize.scalar")
            elif k == 4:
                a, b = self.g(0, 8), self.g(0, 8)
                size_attrs = [("wh", rt), ("dwh", "%s %s" % (fmt(a), fmt(b)))] if r.random() < 0.5 else \
                    [("wh", rt), ("dw", fmt(a)), ("dh", fmt(b))]
                w, h = rw + a, rh + b
                feats.add("relsize.dwh-abs")
            else:
                p = r.choice([25, 50, 150, 200])
                size_attrs = [("wh", rt), ("dwh", "%d%%" % p)]
                w, h = rw * p / 100, rh * p / 100
                feats.add("relsize.dwh-pct")
            if shape == "ellipse":
                pass
            x, y = self.g(), self.g()
            attrs.append(("xy", "%s %s" % (fmt(x), fmt(y))))
            box = Box(x, y, x + w, y + h)
        else:
            return None
        attrs += size_attrs
        r.shuffle(attrs)
        return El(eid, shape, box, attrs, deps, feats=feats)

    def _gen_point(self, form):
        r = self.r
        eid = self.new_id()
        # an additional shift given as attributes (dxy, or dx / dy individually)
        extra, ax, ay, xf = [], F(0), F(0), []
        if r.random() < 0.25:
            ax, ay = self.g(-8, 8), self.g(-8, 8)
            kk = r.random()
            if kk < 0.4:
                extra = [("dxy", "%s %s" % (fmt(ax), fmt(ay)))]
            elif kk < 0.7:
                extra = [("dx", fmt(ax)), ("dy", fmt(ay))]
            elif kk < 0.85:
                extra, ay = [("dx", fmt(ax))], F(0)
            else:
                extra, ax = [("dy", fmt(ay))], F(0)
            xf = ["point.delta-attr"]
        if form == "abs" or r.random() < 0.3:
            x, y = self.g(), self.g()
            return El(eid, "point", Box(x + ax, y + ay, x + ax, y + ay), [("xy", "%s %s" % (fmt(x), fmt(y)))] + extra, [], feats=["shape.point", "form.abs"] + xf)
        rt, re_ = self.pick_ref()
        ls = self.locspec()
        px, py = re_.box.point(ls)
        dtxt, dx, dy = self.delta_pair()
        px, py = px + dx + ax, py + dy + ay
        return El(eid, "point", Box(px, py, px, py), [("xy", "%s@%s%s" % (rt, locspec_text(ls), dtxt))] + extra, [re_.id],
                  feats=["shape.point", "form.loc"] + xf)

    def _gen_line(self, form):
        r = self.r
        eid = self.new_id()
        deps = []
        feats = {"shape.line"}

        def endpoint():
            if form == "abs" or r.random() < 0.35:
                x, y = self.g(), self.g()
                return "%s %s" % (fmt(x), fmt(y)), (x, y)
            rt, re_ = self.pick_ref()
            deps.append(re_.id)
            ls = self.locspec()
            px, py = re_.box.point(ls)
            dtxt, dx, dy = self.delta_pair()
            feats.add("line.rel-endpoint")
            return "%s@%s%s" % (rt, locspec_text(ls), dtxt), (px + dx, py + dy)

        t1, p1 = endpoint()
        t2, p2 = endpoint()
        box = Box(min(p1[0], p2[0]), min(p1[1], p2[1]), max(p1[0], p2[0]), max(p1[1], p2[1]))
        return El(eid, "line", box, [("xy1", t1), ("xy2", t2)], deps, line=(p1, p2), feats=feats | {"form." + ("abs" if not deps else "loc")})

    def _gen_group(self, depth):
        r = self.r
        gid = self.new_id()
        saved_order_len = len(self.order)
        children = []
        for _ in range(r.randint(1, 3)):
            children.append(self.add(depth + 1, allow_group=(depth < 1)))
        box = None
        for c in children:
            if c.box is not None and c.shape != "point":
                box = c.box if box is None else box.union(c.box)
        deps = set()
        for c in children:
            deps |= c.deps
            deps.add(c.id)
        g = El(gid, "g", box, [], deps, children=children, feats=["shape.g"])
        return g

    def build(self, n):
        while len(self.all) < n:
            before = set(self.all)
            el = self.add()
            # children of a group were committed individually; keep only top-level elements in self.els
            if el.children is not None:
                kids = set()

                def collect(e):
                    for c in e.children or []:
                        kids.add(c.id)
                        collect(c)
                collect(el)
                self.els = [e for e in self.els if e.id not in kids]
            self.els.append(el)
        return self

    def document(self, root=True):
        body = "\n".join(e.render() for e in self.els)
        return ("<svg>\n%s\n</svg>\n" % body) if root else body + "\n"

    def features(self):
        f = set()
        for e in self.all.values():
            f |= e.feats
        return sorted(f)
