"""C09 Relative positioning places elements exactly where the relspec says.

Workload: reference DAGs over rect/circle/ellipse/line/box/point/group with every relspec form; oracle: the
reference layout engine of monitors/layout.py (exact rational arithmetic on a dyadic grid -> exact equality)."""
from . import core, geom, layout
from .geom import F, fmt

LEVEL = "exploration"
TECHNIQUE = "reference-model runtime oracle: independent layout engine (exact rational arithmetic) vs geometry parsed from the output"
LEVEL_TEXT = ("Held on the executions observed: ~1e5 generated elements in reference DAGs (chains up to 12) covering 4 directions "
              "x gaps, 9 locations + 4 edges x abs/negative/percent offsets, xy-loc, cxy, per-axis and scalar references, relative "
              "sizes and dw/dh: output geometry equalled the reference layout exactly. Exploration over the product space.")
LEVEL_NOTE = ("Trusted: the reference layout engine (written from layout.md / attribute-ref.md and the property statement). All "
              "inputs lie on a dyadic grid and elements whose coordinates would not be exact at 3 decimals are not generated, so "
              "equality is exact; '~r' is only used on square boxes; groups are reference targets only.")
BUDGET_S = {"quick": 120, "thorough": 1200}
FLOOR = {"quick": 200, "thorough": 5000}
RULE = ("documents of 3..12 elements, each positioned absolutely or relative to earlier elements ('#id' or '^'); non-trivial = "
        "the document was accepted and contains >= 1 relative reference; distinct by hash(document)")
ASSUMPTIONS = ["dyadic inputs (multiples of 1/4), percentages from {0,25,50,75,100,150,-50,...}"]


def check_doc(ctx, case, gen_els, out):
    """compare every expected element box with the output; gen_els: dict id -> (shape, box tuple or None, line or None)"""
    acc = ctx.acc
    try:
        root = geom.parse_out(out)
    except Exception as e:
        acc.violation("output-unparsable", "unparsable", case, observed=str(e), expected="XML")
        return
    ids = geom.by_id(root)
    wrong = set()
    deps = case.get("deps", {})
    for eid, (shape, box, line, feats) in gen_els.items():
        if any(d in wrong for d in deps.get(eid, [])):
            wrong.add(eid)      # a consequence of an earlier mismatch (or of an unobservable box/point/group): not reported
            continue
        if shape in ("box", "point", "g"):
            continue   # not rendered (box/point) or positioned through children (g)
        el = ids.get(eid)
        if el is None:
            acc.violation("element-missing", "element-missing:" + shape, case, observed=sorted(ids), expected=eid)
            continue
        try:
            got = geom.out_box(el)
        except ValueError as e:
            acc.violation("geometry-differs", "geometry:unresolved-attribute/%s" % shape, case, observed=str(e), expected="numbers")
            continue
        exp = geom.Box(*[geom.fr(v) for v in box])
        tol = geom.fr(case.get("tol", "0"))

        def far(a, b):
            return any(abs(x - y) > tol for x, y in zip(a, b))
        bad = got is None or far(got.tuple(), exp.tuple())
        if not bad and line is not None:
            gl = tuple(geom.attr_num(el, k, F(0)) for k in ("x1", "y1", "x2", "y2"))
            el_exp = tuple(geom.fr(v) for v in line)
            bad = far(gl, el_exp)
        if bad:
            wrong.add(eid)
            form = sorted(f for f in feats if f.startswith(("form.", "dir.", "xy-loc", "relsize.", "loc.edge")))
            acc.violation("geometry-differs", "geometry:%s/%s" % (shape, "+".join(form)), dict(case, element=eid),
                          observed=dict(box=repr(got), attrs=el.attrs), expected=dict(box=repr(exp), line=line),
                          what="element %s (%s) is not where the relspec puts it" % (eid, "+".join(form)))
        foreign = geom.foreign_geometry_attrs(el)
        if foreign:
            acc.violation("foreign-attribute", "leftover(%s)/%s" % (",".join(sorted(foreign)), shape), dict(case, element=eid),
                          observed=el.attrs, expected="native attributes only")


def make_case(rng, n=None, **kw):
    g = layout.LayoutGen(rng, **kw).build(n or rng.randint(3, 12))
    doc = g.document(root=rng.random() < 0.8)
    els = {}
    for eid, e in g.all.items():
        els[eid] = (e.shape, [fmt(v) for v in e.box.tuple()] if e.box else None,
                    [fmt(v) for v in (e.line[0] + e.line[1])] if e.line else None, sorted(e.feats))
    rel = any(e.deps for e in g.all.values())
    deps = {eid: sorted(e.deps) for eid, e in g.all.items()}
    case = dict(input=doc.encode(), els=els, deps=deps, feats=g.features() + (["values.decimal"] if kw.get("decimal") else []), relative=rel, chain=max(g.chain.values()))
    if kw.get("decimal"):
        # every hop of a reference chain may add the 3-decimal output rounding of the element referred to
        case["tol"] = fmt(F(11, 10000) * (1 + case["chain"]))
    return case


def check_case(ctx, case):
    acc = ctx.acc
    acc.cases += 1
    r = ctx.run(case["input"], dict(auto=False))
    if r.crashed:
        acc.count("crashed(C01's business)")
        return
    if not r.ok:
        acc.violation("rejected", "rejected:" + str(r.kind), case, observed=core.trunc(r.err, 400), expected="Ok",
                      what="valid relative layout rejected: %s" % core.trunc(r.err, 300))
        return
    if case.get("relative"):
        acc.nontriv(core.chash(case["input"]), case.get("feats", []))
        acc.maxi("max_chain_length", case.get("chain"))
    check_doc(ctx, case, case["els"], r.out)


def run_shard(ctx):
    acc = ctx.acc
    rng = ctx.rng("layout")
    n = 8000 if ctx.quick() else 200000
    for j in range(n):
        if ctx.out_of_time():
            acc.notes.append("time budget reached after %d docs" % j)
            break
        case = make_case(rng, decimal=True) if j % 5 == 4 else make_case(rng)
        check_case(ctx, case)
        if j < 2:
            acc.sample(dict(input=case["input"].decode(), expected_boxes={k: v[1] for k, v in case["els"].items()}))
