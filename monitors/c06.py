"""C06 Determinism: same input and configuration give the same bytes, every time.

Each job list is run by three separate worker processes (fresh hash keys; the third takes the list in reverse
order, so every job's history differs too), each job 4 times in-process on fresh threads; all 12 results must be
identical. Plus: the values of random()/randint() for seed s equal an independent PCG reference stream."""
import re

from . import core, corpus, docgen, pcg32

LEVEL = "exploration"
TECHNIQUE = "runtime differential monitor: 12 executions per (input, config) across 3 processes / orders, byte comparison; PCG reference stream oracle for random functions"
LEVEL_TEXT = ("Held on the executions observed: ~3e4 (input, config) pairs x 12 executions (3 processes with different hash "
              "seeds and ASLR, one in reverse order, 4 repetitions each on fresh threads) gave identical bytes / error strings, "
              "and random()/randint() matched the reference PCG stream for the seed. Exploration over inputs x configs x runs.")
LEVEL_NOTE = ("Trusted: Rust's HashMap keys differ per process and per thread (std RandomState). With use_local_styles the "
              "randomised root id svgdx-xxxxxxxx is masked before comparing. Error values are compared through Display.")
BUDGET_S = {"quick": 150, "thorough": 1500}
FLOOR = {"quick": 200, "thorough": 5000}
RULE = ("documents biased towards what exposes iteration order and hidden state (2..8 pattern classes at once, many classes "
        "per element, several failing elements at once, random()/randint() with document and config seeds, <config seed> "
        "mid-document, <for> over lists, reuse) + repository corpus; non-trivial = >= 2 reserved classes, or a random "
        "function, or >= 2 element errors; distinct by hash(input, config)")
ASSUMPTIONS = ["the CLI prints errors with Debug (unsorted HashMap); the observation point is the library return value (Display)"]

LOCAL_ID = re.compile(rb"svgdx-[0-9a-f]{8}")
PATTERNS = ["grid", "grid-h", "grid-v", "hatch", "crosshatch", "stipple"]


def gen_case(rng):
    r = rng
    feats = set()
    parts = []
    k = r.random()
    n_el = r.randint(2, 10)
    ids = []
    for i in range(n_el):
        cls = []
        for _ in range(r.choice([0, 1, 2, 3, 6])):
            q = r.random()
            if q < 0.5:
                n_ = r.choice([1, 2, 3, 5, 8, 10, 20, 50, 100])
                # the same spacing may be spelled several ways (leading zeros, sign): distinct classes, equal numeric value
                sp = r.choice(["%d", "%d", "%d", "%02d", "%03d", "+%d"]) % n_
                if sp != str(n_):
                    feats.add("pattern-n.alt-spelling")
                cls.append("d-%s-%s" % (r.choice(PATTERNS + ["grid-h", "grid-v"]), sp))
                feats.add("pattern-n")
            elif q < 0.65:
                cls.append("d-" + r.choice(PATTERNS))
            elif q < 0.85:
                cls.append("d-%s%s" % (r.choice(["", "fill-", "text-", "text-ol-"]), r.choice(docgen.COLOURS)))
            else:
                cls.append(r.choice(docgen.MISC_CLASSES + docgen.TEXT_CLASSES))
        attrs = ' id="p%d"' % i
        q = r.random()
        if q < 0.25:
            attrs += ' xy="{{random()*50}} {{randint(0, 40)}}" wh="{{1+randint(1,5)}}"'
            feats.add("random")
        elif q < 0.4:
            attrs += ' xy="#nope%d|h" wh="3"' % r.randint(0, 3)   # failing element
            feats.add("error")
        elif q < 0.5:
            attrs += ' xy="#p%d|h 2" wh="3"' % r.randint(0, n_el - 1)   # may be forward / cyclic
        elif q < 0.55:
            attrs += ' wh="{{1/}}"'
            feats.add("error")
        else:
            attrs += ' xy="%d %d" wh="%d %d"' % (r.randint(-20, 40), r.randint(-20, 40), r.randint(1, 9), r.randint(1, 9))
        if cls:
            attrs += ' class="%s"' % " ".join(cls)
        if r.random() < 0.3:
            attrs += ' text="t{{randint(0,9)}}"' if r.random() < 0.3 else ' text="t%d"' % i
        parts.append("  <%s%s/>" % (r.choice(["rect", "rect", "circle", "ellipse"]).replace("circle", "rect"), attrs))
        if r.random() < 0.1:
            parts.append('  <config seed="%d"/>' % r.choice([0, 5, 99]))
            feats.add("config-seed")
        if r.random() < 0.12:
            # several random draws in ONE element: the attributes of a <var> (assigned 'in parallel'), of a <g> scope and of a
            # shape must take their draws in one fixed order
            nv = r.randint(2, 6)
            names = r.sample(["va", "vb", "vc", "vd", "ve", "vf", "zz", "a1"], nv)
            form = r.choice(["var", "g", "shape"])
            draws = " ".join('%s="{{randint(0, 100000)}}"' % nm for nm in names)
            shown = " ".join("$" + nm for nm in names)
            if form == "var":
                parts.append('  <var %s/>\n  <text xy="0 %d" text="%s"/>' % (draws, i, shown))
            elif form == "g":
                parts.append('  <g %s><text xy="0 %d" text="%s"/></g>' % (draws, i, shown))
            else:
                parts.append('  <rect xy="{{randint(0, 50)}} {{randint(0, 50)}}" wh="{{randint(1, 9)}} {{randint(1, 9)}}" data-a="{{randint(0, 999)}}" data-b="{{randint(0, 999)}}" text="{{randint(0, 99)}}"/>')
            feats.add("random")
            feats.add("random.multi-draw-" + form)
        if r.random() < 0.1:
            parts.append('  <for var="c" data="%s"><rect xy="^|h 1" wh="2" class="d-$c d-grid-{{randint(1,9)}}"/></for>' %
                         ",".join(r.sample(docgen.COLOURS, 3)))
            feats.add("for")
            feats.add("random")
        if r.random() < 0.25 and i > 0:
            # instances carrying several attributes that are copied / merged onto the target (the order they are written in must not vary)
            extra = r.sample([' transform="rotate(%d)"' % r.randint(1, 90), ' style="fill:red"', ' class="tb d-thick"', ' fill="none"', ' data-k="v"',
                              ' stroke="blue"', ' opacity="0.5"', ' text="r"', ' x="%d" y="%d"' % (r.randint(0, 30), r.randint(0, 30))], r.randint(0, 5))
            parts.append('  <%s href="#p%d"%s/>' % (r.choice(["reuse", "reuse", "use"]), r.randint(0, i), "".join(extra)))
            feats.add("reuse-attrs")
        if r.random() < 0.1:
            extra = r.sample([' transform="translate(%d)"' % r.randint(1, 9), ' style="stroke:red"', ' class="g1"', ' fill="none"', ' data-a="1"', ' data-b="2"', ' v="3"'], r.randint(1, 5))
            parts.append('  <g%s><rect xy="^|v 1" wh="2" text="$v"/></g>' % "".join(extra))
        if r.random() < 0.08:
            parts.append('  <defaults><rect style="a:b" text-style="c:d" transform="scale(1)" class="dd" fill="x"/></defaults>')
            feats.add("defaults")
    # layout: one element per line, or several / all elements on one source line (error reports are keyed by source position)
    lay = r.random()
    if lay < 0.6:
        text = "<svg>\n" + "\n".join(parts) + "\n</svg>\n"
    elif lay < 0.8:
        text = "<svg>" + "".join(p.strip() for p in parts) + "</svg>"
        feats.add("layout.single-line")
    else:
        text = "<svg>\n" + "".join(p + r.choice(["\n", "", " "]) for p in parts) + "\n</svg>\n"
        feats.add("layout.mixed-lines")
    cfg = docgen.gen_cfg(rng) or {}
    if r.random() < 0.4:
        cfg["seed"] = r.choice([0, 1, 7, 4242, 2 ** 63])
    ncls = len(set(re.findall(r"d-[a-z-]+(?:-\d+)?", text)))
    nerr = text.count("#nope") + text.count("{{1/}}")
    nontrivial = ncls >= 2 or "random" in feats or nerr >= 2 or "reuse-attrs" in feats
    return text, (cfg or None), sorted(feats), nontrivial


def norm(r, local):
    if r.status == "ok":
        out = r.out
        if local:
            out = LOCAL_ID.sub(b"svgdx-XXXXXXXX", out)
        return ("ok", out)
    if r.status == "err":
        e = r.err
        if local:
            e = re.sub(r"svgdx-[0-9a-f]{8}", "svgdx-XXXXXXXX", e)
        return ("err", e)
    return (r.status, r.get("msg"))


def run_batch(ctx, workers, batch):
    """batch: list of case dicts (input, cfg, ...). Returns nothing; records violations."""
    acc = ctx.acc
    results = [[] for _ in batch]
    for wi, w in enumerate(workers):
        order = range(len(batch)) if wi < 2 else reversed(range(len(batch)))
        for i in order:
            c = batch[i]
            r = w.run(c["input"], c.get("cfg"), repeat=4)
            acc.evaluations += 4
            reps = r.get("reps") or [r]
            local = bool(c.get("cfg") and c["cfg"].get("local"))
            results[i] += [norm(x, local) for x in reps]
            if wi == 0:
                acc.hooks(r)
    for c, res in zip(batch, results):
        acc.cases += 1
        if c.get("nontrivial"):
            acc.nontriv(core.chash(c["input"], core.encode_cfg(c.get("cfg"))), c.get("feats", []))
        if any(x[0] not in ("ok", "err") for x in res):
            acc.count("crashed(C01's business)")
            continue
        distinct = list(dict.fromkeys(res))
        if len(distinct) > 1:
            a, b = distinct[0], distinct[1]
            kind = "%s-vs-%s" % (a[0], b[0])
            where = ""
            if a[0] == b[0] == "ok":
                from .c05 import diff_class
                where = "/" + diff_class(a[1], b[1])[0]
            elif a[0] == b[0] == "err":
                where = "/error-text"
            acc.violation("nondeterministic", "nondet:%s%s" % (kind, where), dict(input=c["input"], cfg=c.get("cfg")),
                          observed=dict(distinct_results=len(distinct), first=core.trunc(a[1], 600), second=core.trunc(b[1], 600)),
                          expected="12 identical results", what="%d distinct results among 12 executions" % len(distinct))
        elif c.get("check_stream") and res[0][0] == "ok":
            check_stream(ctx, c, res[0][1])


def stream_doc(rng):
    n = rng.randint(1, 12)
    seed = rng.choice([0, 1, 2, 7, 99, 123456789, 2 ** 32, 2 ** 64 - 1])
    kinds = [rng.choice(["f", "i", "j"]) for _ in range(n)]
    body = []
    for i, k in enumerate(kinds):
        ex = {"f": "{{random()}}", "i": "{{randint(1, 6)}}", "j": "{{randint(-1000, 1000000)}}"}[k]
        body.append('<text xy="0 %d" text="v=%s"/>' % (i * 3, ex))
    return "<svg>" + "".join(body) + "</svg>", seed, kinds


def check_stream(ctx, c, out):
    vals = re.findall(rb">v=([-0-9.eE]+)<", out)
    p = pcg32.Pcg32(c["seed"])
    from .f32 import fstr, f32
    exp = []
    for k in c["kinds"]:
        if k == "f":
            exp.append(fstr(f32(p.random_f32())))
        elif k == "i":
            exp.append(str(p.randint(1, 6)))
        else:
            exp.append(str(p.randint(-1000, 1000000)))
    got = [v.decode() for v in vals]
    if got != exp:
        ctx.acc.violation("rng-stream", "rng-stream-differs", dict(input=c["input"], cfg=c.get("cfg"), seed=c["seed"], kinds=c["kinds"], check_stream=True),
                          observed=got, expected=exp, what="random values for seed %d differ from the PCG reference stream" % c["seed"])
    ctx.acc.count("rng-stream-checked")


NEEDS_FRONTENDS = True

# documents that fail late (after the first output bytes exist), fail early, or succeed: what runs before on the same thread
PRELUDES = ['<!-- my diagram -->\n<svg width="wide"><rect wh="10"/></svg>', '<?xml version="1.0"?>\n<svg height="1 2"><rect wh="10" text="t"/></svg>',
            'leading text <svg width="x"><rect wh="3"/></svg>', '\n<svg width=""><circle r="3"/></svg>', '<svg><rect xy="#nowhere|h" wh="2"/></svg>', '<svg><rect wh="{{1 +}}"/></svg>',
            '<svg><config seed="5" font-size="7" theme="dark"/><var k="9"/><rect id="a" wh="4" text="{{random()}}" class="d-text-small d-red"/></svg>',
            '<svg><defaults><rect rx="2"/></defaults><specs><g id="t"><rect wh="$w"/></g></specs><reuse href="#t" w="3"/></svg>']


def same_thread_history(ctx):
    """The string API called several times on ONE thread (as an embedding application or a server worker does): a transform
    after failing / state-leaving ones returns what it returns alone."""
    acc = ctx.acc
    rng = ctx.rng("thread-history")
    for j in range(60 if ctx.quick() else 1500):
        if ctx.out_of_time():
            break
        text, cfg, feats, nt = gen_case(rng)
        if cfg and cfg.get("local"):
            continue
        target = text.encode("utf-8")
        if b"\x1e" in target:
            continue
        alone = ctx.run(target, cfg, api="strseq")
        hist = [rng.choice(PRELUDES).encode() for _ in range(rng.randint(1, 4))]
        if rng.random() < 0.3:
            hist.append(target)
        after = ctx.run(b"\x1e".join(hist + [target]), cfg, api="strseq")
        acc.cases += 1
        a, b = norm(alone, False), norm(after, False)
        if a[0] not in ("ok", "err") or b[0] not in ("ok", "err"):
            acc.count("crashed(C01's business)")
            continue
        acc.nontriv(core.chash("thread-history", target, core.encode_cfg(cfg), len(hist)), ["history.same-thread", "history.len%d" % len(hist)])
        if a != b:
            from .c05 import diff_class
            where = ("/" + diff_class(a[1], b[1])[0]) if a[0] == b[0] == "ok" else ""
            acc.violation("nondeterministic", "nondet:same-thread-history/%s-vs-%s%s" % (a[0], b[0], where),
                          dict(kind="thread-history", input=target, cfg=cfg, history=hist),
                          observed=dict(after_history=core.trunc(b[1], 500)), expected=dict(alone=core.trunc(a[1], 500)),
                          what="transform_str on a thread that ran %d other transform(s) before returns something else than on a fresh thread" % len(hist))


def cli_delivery(ctx):
    """The svgdx command reading its input from a pipe: the same bytes, delivered in one write, in bursts with pauses, or a few
    bytes at a time, in fresh processes - the result must not depend on how the bytes arrive."""
    from . import frontends
    acc = ctx.acc
    rng = ctx.rng("cli-delivery")
    docs = []
    for _ in range(3 if ctx.quick() else 20):
        text, cfg, feats, nt = gen_case(rng)
        docs.append(text.encode("utf-8"))
    # long documents: beyond one pipe buffer (64 KiB) and beyond the usual read sizes (8 KiB)
    for n in ([700, 4000] if ctx.quick() else [150, 700, 2500, 4000, 12000]):
        docs.append(("<svg>\n" + "\n".join('  <rect xy="%d %d" wh="3" text="r%d"/>' % ((i % 50) * 4, (i // 50) * 4, i) for i in range(n + ctx.shard)) + "\n</svg>\n").encode())
    ct = corpus.texts()
    docs += [rng.choice(ct).encode("utf-8") for _ in range(2 if ctx.quick() else 10)]
    for data in docs:
        if ctx.out_of_time():
            break
        ref = frontends.run_cli([], stdin=data)
        acc.evaluations += 1
        if ref.timed_out:
            acc.inconc("cli-timeout")
            continue
        n = len(data)
        cuts = sorted(set(rng.randint(1, max(1, n - 1)) for _ in range(2)))
        plans = {"two-bursts": [data[:cuts[0]], data[cuts[0]:]],
                 "three-bursts": [data[:cuts[0]], data[cuts[0]:cuts[-1]], data[cuts[-1]:]] if len(cuts) > 1 else [data[:1], data[1:]],
                 "dribble-then-rest": [data[i:i + 1] for i in range(min(12, n))] + [data[min(12, n):]],
                 "8k-blocks": [data[i:i + 8192] for i in range(0, n, 8192)][:40] + ([data[40 * 8192:]] if n > 40 * 8192 else []),
                 "short-first-block": [data[:100], data[100:]]}
        for name, chunks in plans.items():
            chunks = [c for c in chunks if c]
            if len(chunks) < 2:
                continue
            deliver_and_compare(ctx, data, ref, name, chunks)


def deliver_and_compare(ctx, data, ref, name, chunks):
    from . import frontends
    acc = ctx.acc
    n = len(data)
    acc.cases += 1
    got = frontends.run_cli_bursts([], chunks, pause=0.03 if name != "dribble-then-rest" else 0.002)
    acc.evaluations += 1
    acc.count("cli.stdin-delivery")
    if got.timed_out:
        acc.inconc("cli-timeout")
        return
    acc.nontriv(core.chash("delivery", name, data), ["cli-stdin-delivery." + name, "input.%s" % ("long" if n > 65536 else "medium" if n > 8192 else "short")])
    a = ("ok", ref.out) if ref.rc == 0 else ("err", ref.rc)
    b = ("ok", got.out) if got.rc == 0 else ("err", got.rc)
    if a != b:
        from .c05 import diff_class
        where = diff_class(a[1], b[1]) if a[0] == b[0] == "ok" else "-"
        acc.violation("nondeterministic", "nondet:cli-stdin-delivery/%s-vs-%s" % (a[0], b[0]),
                      dict(kind="cli-delivery", input=data, plan=name, chunk_sizes=[len(c) for c in chunks]),
                      observed=dict(delivery=name, result=b[0], out=core.trunc(got.out, 300), err=core.trunc(got.err, 300), diff=where),
                      expected=dict(one_write=a[0], out=core.trunc(ref.out, 300)),
                      what="svgdx reading stdin: the same bytes delivered as %s give a different result than delivered in one write" % name)


def check_case(ctx, case):
    if case.get("kind") == "thread-history":
        alone = ctx.run(case["input"], case.get("cfg"), api="strseq")
        after = ctx.run(b"\x1e".join(list(case["history"]) + [case["input"]]), case.get("cfg"), api="strseq")
        if norm(alone, False) != norm(after, False):
            ctx.acc.violation("nondeterministic", "nondet:same-thread-history", case, observed=core.trunc(norm(after, False)[1], 500), expected=core.trunc(norm(alone, False)[1], 500))
        return
    if case.get("kind") == "cli-delivery":
        from . import frontends
        data, chunks, at = case["input"], [], 0
        for k in case["chunk_sizes"]:
            chunks.append(data[at:at + k])
            at += k
        deliver_and_compare(ctx, data, frontends.run_cli([], stdin=data), case["plan"], chunks)
        return
    workers = [ctx.worker, core.Worker(), core.Worker()]
    try:
        case = dict(case, nontrivial=True)
        run_batch(ctx, workers, [case])
    finally:
        for w in workers[1:]:
            w.close()


def run_shard(ctx):
    acc = ctx.acc
    rng = ctx.rng("docs")
    workers = [ctx.worker, core.Worker(), core.Worker()]
    try:
        n = 4000 if ctx.quick() else 80000
        batch = []
        for j in range(n):
            if ctx.out_of_time():
                acc.notes.append("time budget reached after %d docs" % j)
                break
            if j % 10 == 9:
                text, seed, kinds = stream_doc(rng)
                batch.append(dict(input=text.encode(), cfg=dict(seed=seed, auto=False), seed=seed, kinds=kinds, check_stream=True,
                                  nontrivial=True, feats=["rng-stream"]))
            else:
                text, cfg, feats, nt = gen_case(rng)
                batch.append(dict(input=text.encode("utf-8"), cfg=cfg, feats=feats, nontrivial=nt))
                if j < 2:
                    acc.sample(dict(input=core.trunc(text, 500), cfg=cfg))
            if len(batch) >= 100:
                run_batch(ctx, workers, batch)
                batch = []
        docs = corpus.texts()
        for i, t in enumerate(docs):
            if ctx.mine(i):
                cfg = docgen.gen_cfg(ctx.rng("corpus", i)) if i % 2 else None
                ncls = len(set(re.findall(r"d-[a-z-]+(?:-\d+)?", t)))
                batch.append(dict(input=t.encode("utf-8"), cfg=cfg, feats=["corpus"], nontrivial=(ncls >= 2 or "rand" in t)))
        run_batch(ctx, workers, batch)
        same_thread_history(ctx)
        cli_delivery(ctx)
    finally:
        for w in workers[1:]:
            w.close()
