"""C17 Limits reject exactly when exceeded; depth means nesting, not length.

Parametric boundary documents for every limit L in {1,2,3,10,100,1000}: loop count / while / until / for / variable
length / nesting depth (per element kind and mixed) at L-1, L, L+1, with the limit given by configuration or by a
<config> element; flat documents of 50..2000 siblings of every element kind. Two-sided oracle: accepted iff within
the limit; on accept the number of rendered elements is the number the program asks for (no truncation); the
depth counter (context probe hook) is 0 after every transform."""
from . import core, geom

LEVEL = "exploration"
TECHNIQUE = "two-sided boundary oracle (accept iff within limit, no truncation) over parametric documents + depth-counter invariant via the context probe hook"
LEVEL_TEXT = ("Held on the executions observed: for L in {1,2,3,10,100,1000} and ~24 (quick) / ~400 (thorough) random limits in 4..220 x {count, while, until, for, var length, nesting of 17 element "
              "kinds and mixed} x {L-1, L, L+1} x {config, <config>}: accepted exactly when within the limit, with the full number of elements "
              "rendered; flat documents of up to 2000 siblings of every kind accepted; depth counter 0 after every transform. "
              "Exploration: limits and lengths are sampled parametrically around every boundary.")
LEVEL_NOTE = ("Trusted: nesting depth = number of nested XML elements from the root to the deepest element (root and leaf included). For reuse "
              "chains only a single accept/reject threshold between the chain length and twice the chain length + 2 is required (how many "
              "levels one <reuse> hop costs is not stated).")
BUDGET_S = {"quick": 150, "thorough": 1500}
FLOOR = {"quick": 200, "thorough": 1000}
RULE = ("parametric documents; non-trivial = at distance <= 1 from a limit, or a flat document longer than the depth limit; distinct by hash(document, config)")
ASSUMPTIONS = ["variable values are ASCII (length in characters = length in bytes)"]

LIMITS = [1, 2, 3, 10, 100, 1000]
NEST_KINDS = {
    "g": ("<g>", "</g>"), "svg": ("<svg>", "</svg>"), "defs": ("<defs>", "</defs>"), "a": ('<a href="x">', "</a>"),
    "if": ('<if test="1">', "</if>"), "loop": ('<loop count="1">', "</loop>"), "for": ('<for var="q" data="1">', "</for>"),
    "symbol": ("<symbol>", "</symbol>"), "linearGradient": ("<linearGradient>", "</linearGradient>"), "clipPath": ("<clipPath>", "</clipPath>"),
    "text-tspan": ("<tspan>", "</tspan>"), "g-attrs": ('<g class="x" k="1">', "</g>"), "marker": ("<marker>", "</marker>"),
    "pattern": ("<pattern>", "</pattern>"), "mask": ("<mask>", "</mask>"), "switch": ("<switch>", "</switch>"), "unknown": ("<zzz>", "</zzz>"),
}
LEAVES = {"var": '<var a="1"/>', "var-open": '<var a="1"></var>', "config": '<config seed="3"/>', "text": "<text>x</text>", "circle": '<circle r="1"/>',
          "line": '<line xy1="0" xy2="1"/>', "if-empty": '<if test="0"></if>', "loop-empty": '<loop count="0"></loop>', "g-empty": "<g/>", "defaults": '<defaults fill="red"/>',
          "point": '<point xy="1 1"/>', "style": "<style>a{}</style>", "unknown": "<zzz/>", "var+var": '<var a="1"/><var b="2"/>', "config+var": '<config seed="3"/><var b="2"/>'}
FLAT_KINDS = {
    "rect": '<rect xy="0 %d" wh="1"/>', "text-content": '<text xy="0 %d">t</text>', "rect-content": '<rect xy="0 %d" wh="2">label</rect>',
    "g": '<g><rect xy="0 %d" wh="1"/></g>', "defs": '<defs><rect xy="0 %d" wh="1"/></defs>', "svg": '<svg><rect xy="0 %d" wh="1"/></svg>',
    "linearGradient": '<linearGradient id="g%d"><stop offset="0"/></linearGradient>', "text-tspans": '<text xy="0 %d"><tspan>a</tspan><tspan>b</tspan></text>',
    "loop": '<loop count="1"><rect xy="0 %d" wh="1"/></loop>', "if": '<if test="1"><rect xy="0 %d" wh="1"/></if>',
    "for": '<for var="q" data="1"><rect xy="0 %d" wh="1"/></for>', "var": '<var v="%d"/>', "style": "<style>rect { fill: red; } /* %d */</style>",
    "title": "<title>t%d</title>", "a": '<a href="x"><rect xy="0 %d" wh="1"/></a>', "symbol": '<symbol id="s%d"><rect wh="1"/></symbol>',
    "clipPath": '<clipPath id="c%d"><rect wh="1"/></clipPath>', "comment": "<!-- c%d -->", "text-multiline": '<rect xy="0 %d" wh="3" text="a\\nb"/>',
}


NEEDS_FRONTENDS = True
EMBED = [("", ""), ('<if test="1">', "</if>"), ("<g>", "</g>"), ("<defs>", "</defs>"), ("<svg>", "</svg>"), ('<a href="x">', "</a>"), ('<g m="1" class="c">', "</g>"),
         ('<loop count="1">', "</loop>"), ('<g><if test="1">', "</if></g>"), ('<if test="1"><defs>', "</defs></if>")]


def limit_cfg(rng, key, L):
    """returns (cfg, prefix): the limit is given either by configuration or by a <config> element"""
    k = rng.random()
    if k < 0.42:
        return {key: L}, "", "config"
    if k < 0.55:
        # the same limit given as an option of the svgdx command (document on stdin)
        return {key: L}, "", "cli-option"
    name = {"loop": "loop-limit", "var": "var-limit", "depth": "depth-limit"}[key]
    return None, '<config %s="%d"/>' % (name, L), "config-element"


def cases(ctx):
    rng = ctx.rng("cases")
    quick = ctx.quick()
    out = []
    extra = sorted(set(rng.randint(4, 220) for _ in range(24 if quick else 400)) - set(LIMITS))
    for L in LIMITS + extra:
        for delta in (-1, 0, 1):
            n = L + delta
            if n < 0:
                continue
            # ---- loops
            for form in ("count", "count-var", "while", "until", "for", "nested-count"):
                if form == "until" and n == 0:
                    continue
                cfg, pre, how = limit_cfg(rng, "loop", L)
                if form == "count":
                    body, expect_n = '<loop count="%d"><rect xy="^|h" wh="1"/></loop>' % n, n
                elif form == "count-var":
                    body, expect_n = '<loop count="{{%d}}" loop-var="i"><rect xy="{{$i}} 0" wh="1"/></loop>' % n, n
                elif form == "while":
                    body, expect_n = '<var k="0"/><loop while="lt($k, %d)"><var k="{{$k + 1}}"/><rect xy="^|h" wh="1"/></loop>' % n, n
                elif form == "until":
                    body, expect_n = '<var k="0"/><loop until="ge($k, %d)"><var k="{{$k + 1}}"/><rect xy="^|h" wh="1"/></loop>' % n, n
                elif form == "for":
                    if n == 0:
                        continue
                    body, expect_n = '<for var="q" data="%s"><rect xy="^|h" wh="1"/></for>' % ", ".join(["1"] * n), n
                else:
                    if n > 100:
                        continue
                    outer = min(2, L)
                    body, expect_n = '<loop count="%d"><loop count="%d"><rect xy="^|h" wh="1"/></loop></loop>' % (outer, n), outer * n
                doc = "<svg>%s<rect wh=\"1\" id=\"first\"/>%s</svg>" % (pre, body)
                out.append(dict(family="loop." + form, L=L, n=n, input=doc.encode(), cfg=cfg, accept=(n <= L), count=("rect", expect_n + 1), how=how))
                # ---- the same loop embedded: inside a container, next to a sibling that fails on the first pass (forward
                # reference, resolved on a later pass), with the loop's state declared outside the container. The limit must
                # still decide alone: a limit error is final whatever else failed in the same pass.
                if L <= 100 or form in ("while", "until"):
                    decl, loop = ("", body)
                    if body.startswith("<var k="):
                        decl, loop = body[:len('<var k="0"/>')], body[len('<var k="0"/>'):]
                    loop = loop.replace('xy="^|h"', 'xy="0 0"')
                    for (o, c) in (EMBED if (L in (2, 3, 10) or L in extra[:6]) else EMBED[:3]):
                        for sib in ("none", "fwdref"):
                            cfg, pre, how = limit_cfg(rng, "loop", L)
                            fw = '<rect id="fw" xy="#z|h" wh="1"/>' if sib == "fwdref" else ""
                            if n > L:
                                inner = decl + o + fw + loop + c       # loop state outside the (retried) container
                            else:
                                inner = o + fw + decl + loop + c       # accepted documents keep their state inside (C15 covers the other case)
                            doc = '<svg>%s<rect wh="1" id="first"/>%s<rect id="z" wh="1"/></svg>' % (pre, inner)
                            nm = o.replace(">", " ").replace("<", " ").split()[0] if o else "top"
                            out.append(dict(family="loop.%s@%s%s" % (form, nm, "+fwdref" if fw else ""), L=L, n=n, input=doc.encode(), cfg=cfg, accept=(n <= L),
                                            count=("rect", expect_n + 2 + (1 if fw else 0)), how=how))
            # ---- limits reached while a <specs> block is processed (templates are evaluated there for their side effects):
            # exceeding a limit is final there too, a template within its limits is accepted
            if n >= 1 and L <= 100:
                cfg, pre, how = limit_cfg(rng, "loop", L)
                small = max(0, min(2, L))
                doc = ('<svg>%s<rect wh="1" id="first"/><specs><g id="dots" k="%d"><loop count="$k"><rect xy="0 0" wh="1"/></loop></g></specs>'
                       '<reuse href="#dots" k="%d"/></svg>') % (pre, n, small)
                out.append(dict(family="loop.template-default-in-specs", L=L, n=n, input=doc.encode(), cfg=cfg, accept=(n <= L), count=("rect", 1 + small), how=how))
                cfg, pre, how = limit_cfg(rng, "var", L)
                doc = '<svg>%s<specs><var v="%s"/><text id="t" text="t"/></specs><reuse href="#t" x="0" y="0"/></svg>' % (pre, "x" * n)
                out.append(dict(family="var.in-specs", L=L, n=n, input=doc.encode(), cfg=cfg, accept=(n <= L), count=("text", 1), how=how))
                if n >= 3:
                    cfg, pre, how = limit_cfg(rng, "depth", L)
                    if not (pre and L < 2):
                        k = n - 3          # svg > specs > g*k > rect : depth = 3 + k
                        doc = '<svg>%s<specs>%s<rect id="deep" wh="1"/>%s</specs><rect wh="2"/></svg>' % (pre, "<g>" * k, "</g>" * k)
                        out.append(dict(family="depth.in-specs", L=L, n=n, input=doc.encode(), cfg=cfg, accept=(n <= L), how=how))
            # ---- variable length
            cfg, pre, how = limit_cfg(rng, "var", L)
            for form in ("literal", "concat", "second-of-two", "first-of-two"):
                if form == "literal":
                    body = '<var v="%s"/><text xy="0 0" text="$v"/>' % ("x" * n)
                elif form == "second-of-two":
                    # several variables in one <var>: each value is limited (the long one sorts below the short one)
                    if n < 1:
                        continue
                    body = '<var k="5" v="%s"/><text xy="0 0" text="$v"/>' % ("0" * n)
                elif form == "first-of-two":
                    if n < 1:
                        continue
                    body = '<var v="%s" k="z"/><text xy="0 0" text="$v"/>' % ("a" * n)
                else:
                    if n < 2:
                        continue
                    body = '<var a="%s"/><var v="${a}%s"/><text xy="0 0" text="$v"/>' % ("y" * (n // 2), "z" * (n - n // 2))
                    if n // 2 > L:
                        continue
                doc = "<svg>%s%s</svg>" % (pre, body)
                out.append(dict(family="var." + form, L=L, n=n, input=doc.encode(), cfg=cfg, accept=(n <= L), count=("text", 1), how=how))
            # attributes of <g> / <reuse> are variables for their content: a value computed for one is limited like a <var>
            if n >= 2 and n // 2 <= L:
                a, z = "y" * (n // 2), "z" * (n - n // 2)
                for form, body in (("g-attr", '<var a="%s"/><g v="${a}%s"><text xy="0 0" text="$v"/></g>' % (a, z)),
                                   ("reuse-attr", '<var a="%s"/><specs><text id="t" xy="0 0" text="$v"/></specs><reuse href="#t" v="${a}%s"/>' % (a, z))):
                    doc = "<svg>%s%s</svg>" % (pre, body)
                    out.append(dict(family="var." + form, L=L, n=n, input=doc.encode(), cfg=cfg, accept=(n <= L), count=("text", 1), how=how))
            # ---- nesting depth: D nested elements including root <svg> and the leaf
            if L <= 100 or not quick:
                for kind, (o, c) in NEST_KINDS.items():
                    D = n
                    if D < 2:
                        continue
                    if L == 1000 and kind not in ("g", "if", "defs"):
                        continue
                    k = D - 2
                    inner = o * k + '<rect wh="1"/>' + c * k
                    if kind in ("g", "if", "loop", "unknown", "defs") and L <= 100:
                        # the deepest element is an element of any kind: directives and empty containers count as a level too
                        for leaf, ltxt in LEAVES.items():
                            cfg, pre, how = limit_cfg(rng, "depth", L)
                            if pre and L < 2:
                                continue
                            doc = "<svg>%s%s</svg>" % (pre, o * k + ltxt + c * k)
                            out.append(dict(family="depth.%s/leaf.%s" % (kind, leaf), L=L, n=D, input=doc.encode(), cfg=cfg, accept=(D <= L), how=how))
                    if kind == "text-tspan":
                        if k < 1:
                            continue
                        inner = "<text>" + o * (k - 1) + "<tspan>x</tspan>" + c * (k - 1) + "</text>"
                        # the innermost <tspan>x</tspan> is the leaf: depth = 1 (svg) + 1 (text) + (k-1) + 1
                    cfg, pre, how = limit_cfg(rng, "depth", L)
                    if pre:
                        # <config> itself is an element at depth 2; it must be allowed to run
                        if L < 2:
                            continue
                    doc = "<svg>%s%s</svg>" % (pre, inner)
                    out.append(dict(family="depth." + kind, L=L, n=D, input=doc.encode(), cfg=cfg, accept=(D <= L), how=how))
                # mixed kinds
                D = n
                if D >= 3:
                    kinds = list(NEST_KINDS.values())
                    k = D - 2
                    chain = [kinds[(i * 7) % len(kinds)] for i in range(k)]
                    chain = [c_ for c_ in chain if c_[0] != "<tspan>"]
                    while len(chain) < k:
                        chain.append(NEST_KINDS["g"])
                    inner = "".join(o for o, _ in chain) + '<rect wh="1"/>' + "".join(c for _, c in reversed(chain))
                    cfg, pre, how = limit_cfg(rng, "depth", L)
                    doc = "<svg>%s%s</svg>" % (pre, inner)
                    out.append(dict(family="depth.mixed", L=L, n=D, input=doc.encode(), cfg=cfg, accept=(D <= L), how=how))
    # ---- forward-reference chains: resolving them takes one pass per link, which is no loop and counts against no limit
    for L in (0, 1, 2, 5):
        for m in (2, 3, 4, 8, 20):
            body = "".join('<rect id="r%d" xy="#r%d|h 1" wh="2"/>' % (i, i + 1) for i in range(m)) + '<rect id="r%d" wh="2"/>' % m
            cfg, pre, how = limit_cfg(rng, "loop", L)
            out.append(dict(family="flat.fwd-chain", L=L, n=m, input=("<svg>%s%s</svg>" % (pre, body)).encode(), cfg=cfg, accept=True, count=("rect", m + 1), how=how, flat=True))
    # ---- flat documents, default limits
    for kind, tmpl in FLAT_KINDS.items():
        for m in ([50, 99, 100, 101, 150, 400] + ([1000, 2000] if not quick or kind in ("rect", "text-content", "g", "defs") else [])):
            body = "".join(tmpl % i if "%d" in tmpl else tmpl for i in range(m))
            out.append(dict(family="flat." + kind, L=100, n=m, input=("<svg>" + body + "</svg>").encode(), cfg=None, accept=True, flat=True))
    # mixed flat
    for m in (120, 500):
        kinds = list(FLAT_KINDS.values())
        body = "".join((kinds[i % len(kinds)] % i) for i in range(m))
        out.append(dict(family="flat.mixed", L=100, n=m, input=("<svg>" + body + "</svg>").encode(), cfg=None, accept=True, flat=True))
    return out


def check_case(ctx, case):
    acc = ctx.acc
    acc.cases += 1
    if case.get("how") == "cli-option":
        from . import frontends
        args = []
        for k_, v_ in (case.get("cfg") or {}).items():
            args += ["--%s-limit" % k_, str(v_)]
        res = frontends.run_cli(args, stdin=case["input"], timeout=300)
        acc.evaluations += 1
        acc.count("cli.limit-option")
        if res.timed_out:
            acc.inconc("cli-timeout")
            return
        r = core.Result(status="ok" if res.rc == 0 else "died" if res.rc < 0 or res.rc > 100 else "err", out=res.out, err=res.err.decode("utf-8", "replace"), kind="cli")
    else:
        r = ctx.run(case["input"], case.get("cfg"))
    if r.crashed:
        acc.count("crashed(C01's business)")
        return
    fam = case["family"]
    near = abs(case["n"] - case["L"]) <= 1 or (case.get("flat") and case["n"] > 100)
    if near:
        acc.nontriv(core.chash(case["input"], core.encode_cfg(case.get("cfg"))), ["family." + fam.split(".")[0], "L=%d" % case["L"]] + (["via." + case["how"]] if case.get("how") else []))
    pr = r.get("probe") or {}
    if pr.get("current_depth", 0) != 0:
        acc.violation("depth-counter", "depth-counter-nonzero/%s" % ("ok" if r.ok else "err"), case, observed=pr, expected="current_depth = 0",
                      what="depth counter is %s after the transform" % pr.get("current_depth"))
    if case["accept"] and not r.ok:
        acc.violation("rejected-within-limit", "rejected-within-limit:%s" % fam, case, observed=core.trunc(r.err, 300),
                      expected="accepted (%s=%d, limit %d)" % (fam, case["n"], case["L"]),
                      what="%s with n=%d rejected although the limit is %d: %s" % (fam, case["n"], case["L"], core.trunc(r.err, 160)))
        return
    if not case["accept"] and r.ok:
        acc.violation("accepted-beyond-limit", "accepted-beyond-limit:%s" % fam, case, observed=core.trunc(r.out, 300),
                      expected="rejected (%s=%d, limit %d)" % (fam, case["n"], case["L"]),
                      what="%s with n=%d accepted although the limit is %d" % (fam, case["n"], case["L"]))
        return
    if not case["accept"] and r.ok is False and r.kind not in ("MultiError", "LoopLimitError", "VarLimitError", "DepthLimitExceeded"):
        acc.count("rejected-with-other-error." + str(r.kind))
    if r.ok and case.get("count"):
        name, want = case["count"]
        root = geom.parse_out(r.out)
        got = len(root.find_all(name))
        if got != want:
            acc.violation("truncated", "truncated:%s" % fam, case, observed=got, expected=want,
                          what="%d <%s> elements rendered, the program asks for %d" % (got, name, want))


def run_shard(ctx):
    acc = ctx.acc
    ctx.reuse_obs = {}
    allc = cases(ctx)
    for i, case in enumerate(allc):
        if not ctx.mine(i):
            continue
        if ctx.out_of_time():
            acc.notes.append("time budget reached at case %d" % i)
            break
        check_case(ctx, case)
        if i in (3, 40):
            acc.sample(dict(family=case["family"], L=case["L"], n=case["n"], cfg=case.get("cfg"), input=core.trunc(case["input"], 300)))
    # reuse recursion: a chain of n hops must have ONE accept/reject threshold, n hops nest n+3 elements when inlined and 2n+4 counting the <reuse> elements: threshold t with (L-4)/2 <= t <= L-3
    for li, L in enumerate([3, 5, 10, 30, 100]):
        if not ctx.mine(li):
            continue
        obs = []
        for n in range(1, L + 3):
            chain = '<specs><g id="t0"><rect wh="1"/></g>' + "".join('<g id="t%d"><reuse href="#t%d"/></g>' % (i + 1, i) for i in range(n)) + "</specs>"
            doc = "<svg>%s<reuse href=\"#t%d\"/></svg>" % (chain, n)
            r = ctx.run(doc, {"depth": L})
            acc.cases += 1
            obs.append(bool(r.ok))
            if (r.get("probe") or {}).get("current_depth", 0) != 0:
                acc.violation("depth-counter", "depth-counter-nonzero/reuse", dict(family="reuse-chain", L=L, n=n, input=doc.encode(), cfg={"depth": L}),
                              observed=r.get("probe"), expected="current_depth = 0")
            if r.ok and len(geom.parse_out(r.out).find_all("rect")) != 1:
                acc.violation("truncated", "truncated:reuse-chain", dict(family="reuse-chain", L=L, n=n, input=doc.encode(), cfg={"depth": L}), observed=core.trunc(r.out, 300), expected="1 rect")
        acc.nontriv(core.chash("reuse-chain", L), ["family.reuse-chain"])
        t = sum(1 for o in obs if o)
        monotone = obs == [True] * t + [False] * (len(obs) - t)
        if not monotone or not ((L - 4) // 2 <= t <= max(0, L - 3)):
            acc.violation("reuse-threshold", "reuse-chain:no-single-threshold" if not monotone else "reuse-chain:threshold-out-of-range",
                          dict(family="reuse-chain", L=L, n=t, input=b"", cfg={"depth": L}), observed=dict(accepted_chain_lengths=[i + 1 for i, o in enumerate(obs) if o]),
                          expected="all chains up to one threshold between %d and %d hops accepted, all longer ones rejected" % (max(0, (L - 4) // 2), max(0, L - 3)))
