"""C05 Output is a fixed point: re-processing svgdx output changes nothing.

For root-<svg> documents x with T_c1(x) = y Ok: T_c2(y) must be Ok and byte-identical to y, for several
independently drawn configurations c2 (always including default and debug+metadata)."""
from . import core, corpus, docgen, c02

LEVEL = "exploration"
TECHNIQUE = "runtime oracle: feed every successful output back through the transform under independent configurations and compare bytes"
LEVEL_TEXT = ("Held on the executions observed: ~2e4 generated and repository documents x configuration pairs (c1, c2): the "
              "second transform succeeded and reproduced the first output byte for byte. Exploration over inputs x configs.")
LEVEL_NOTE = ("Trusted: byte comparison only between two runs of the same build. Inputs whose root carries a foreign xmlns "
              "are not generated (their outermost element is not an SVG <svg>).")
BUDGET_S = {"quick": 150, "thorough": 1500}
FLOOR = {"quick": 200, "thorough": 5000}
RULE = ("(x, c1, c2) triples; x from the feature-tagged generator (root <svg>, hostile strings in every value flow, text/tspans, "
        "comments, CDATA styles, defs, metadata, local styles, themes) and the repository corpus; non-trivial = T_c1(x) is Ok and "
        "the output contains a generated construct (text, style, defs, comment or metadata); distinct by hash(x, c1, c2)")
ASSUMPTIONS = ["only documents whose outermost element is <svg> (single root) are judged"]

C2_FIXED = [None, dict(debug=True, meta=True)]
# 'under any configuration': the limits of the second pass are part of it (already-processed SVG is passed through, whatever they are)
C2_LIMITS = [dict(depth=0), dict(depth=1), dict(depth=2), dict(depth=3), dict(loop=0), dict(var=0), dict(depth=2, loop=1, var=1, debug=True)]
EDGE_DOCS = ['<svg xmlns="https://www.w3.org/2000/svg"><rect xy="1 2" wh="4 2" text="a"/></svg>', '<svg xmlns="http://www.w3.org/2000/svg/"><rect wh="3"/></svg>',
             '<svg xmlns=""><rect wh="3" class="d-red"/></svg>', '<svg xmlns="http://example.com/ns"><circle r="2"/></svg>',
             "<svg/>", "<svg></svg>", "<svg> </svg>", "<svg>\n</svg>", "<svg><!-- c --></svg>", "<!-- c --><svg><rect wh=\"1\"/></svg><!-- d -->",
             "<?xml version=\"1.0\"?>\n<svg><rect wh=\"1\" text=\"a\"/></svg>\n", "<svg><svg><rect wh=\"1\"/></svg></svg>",
             "<svg width=\"10cm\"><rect wh=\"4 2\"/></svg>", "<svg viewBox=\"0 0 1 1\" height=\"50%\"><rect wh=\"4 2\"/></svg>",
             "<svg><text>plain</text></svg>", "<svg>text &amp; more<rect wh=\"1\"/>tail &lt;</svg>",
             "<svg><style>rect { fill: red; }</style><rect wh=\"1\"/></svg>", "<svg><rect wh=\"3\" text=\"a\\nb\\n\\nc\" class=\"d-text-pre\"/></svg>",
             # character data between elements given as CDATA (a 'tail' of the preceding tag), with and without white space after it
             "<svg><rect xy=\"0\" wh=\"20\"/><![CDATA[if a <b && c > d]]><circle cx=\"40\" cy=\"10\" r=\"5\"/></svg>",
             "<svg><rect xy=\"0\" wh=\"20\"/><![CDATA[x<y]]></svg>", "<svg><g><rect wh=\"2\"/><![CDATA[</g> & <g>]]></g><rect wh=\"1\"/></svg>",
             "<svg><rect wh=\"2\"/><![CDATA[a<b]]>\n  <rect wh=\"1\"/></svg>", "<svg><![CDATA[<lead>]]><rect wh=\"2\"/></svg>",
             "<rect wh=\"2\"/><![CDATA[1 < 2 &amp; 3]]><rect wh=\"1\"/>", "<svg><rect wh=\"2\"/>t<![CDATA[<]]>u<rect wh=\"1\"/></svg>"]


def diff_class(a, b):
    n = min(len(a), len(b))
    i = 0
    while i < n and a[i] == b[i]:
        i += 1
    where = c02.context_at(a, i)
    return where, i


def check_case(ctx, case):
    acc = ctx.acc
    acc.cases += 1
    x, c1 = case["input"], case.get("c1")
    wf, root, attrs, ntop = c02.root_info(x)
    if not wf or root != "svg" or ntop != 1:
        acc.count("skipped.not-single-svg-root")
        return
    r1 = ctx.run(x, c1)
    if not r1.ok:
        acc.count("first-pass." + str(r1.status))
        return
    y = r1.out
    generated = any(t in y for t in (b"<text", b"<style", b"<defs", b"<!--", b"data-src-line"))
    # input class for signatures: a root <svg> declaring a default namespace other than SVG's is copied through unprocessed
    # by svgdx without being marked as finished (known finding); everything else is the ordinary class
    xm = (attrs or {}).get("xmlns")
    icls = "@foreign-xmlns-root" if (xm is not None and xm != c02.SVGNS) else ""
    for c2 in case["c2s"]:
        r2 = ctx.run(y, c2)
        if generated:
            acc.nontriv(core.chash(x, core.encode_cfg(c1), core.encode_cfg(c2)), case.get("feats", []))
        sub = dict(case, c2s=[c2])
        if r2.crashed:
            acc.count("crashed(C01's business)")
            continue
        if r2.status != "ok":
            acc.violation("second-pass-fails", "second-pass-fails:%s%s" % (r2.kind, icls), sub, observed=dict(err=core.trunc(r2.err, 400), y=core.trunc(y, 800)),
                          expected="Ok", what="T(T(x)) fails: %s" % core.trunc(r2.err, 200))
            continue
        if r2.out != y:
            where, i = diff_class(y, r2.out)
            acc.violation("not-fixed-point", "differs/%s%s" % (where, icls), sub,
                          observed=dict(offset=i, first=core.trunc(y[max(0, i - 80):i + 80], 400), second=core.trunc(r2.out[max(0, i - 80):i + 80], 400)),
                          expected="identical bytes", what="T_c2(T_c1(x)) differs from T_c1(x) at byte %d (%s)" % (i, where))


def draw_c2s(rng, n):
    return C2_FIXED + [rng.choice(C2_LIMITS)] + [docgen.gen_cfg(rng) for _ in range(n)]


def run_shard(ctx):
    acc = ctx.acc
    rng = ctx.rng("docs")
    n = 7000 if ctx.quick() else 120000
    for j in range(n):
        if ctx.out_of_time():
            acc.notes.append("time budget reached after %d docs" % j)
            break
        text, feats = docgen.gen_doc(rng, hostile=0.5, eval_atoms=0.02, root=True, prolog=0.3)
        case = dict(input=text.encode("utf-8"), c1=docgen.gen_cfg(rng), c2s=draw_c2s(rng, 2), feats=feats)
        check_case(ctx, case)
        if j < 2:
            acc.sample(dict(x=core.trunc(text, 400), c1=case["c1"], c2s=case["c2s"]))
    docs = corpus.texts() + EDGE_DOCS
    for i, t in enumerate(docs):
        if not ctx.mine(i):
            continue
        r = ctx.rng("corpus", i)
        for k in range(2 if ctx.quick() else 6):
            check_case(ctx, dict(input=t.encode("utf-8"), c1=(docgen.gen_cfg(r) if k else None), c2s=draw_c2s(r, 1), feats=["corpus"]))
