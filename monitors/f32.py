"""IEEE single-precision emulation and svgdx's number formatting (fstr), independent of the Rust code."""
import math
import struct

_pack = struct.Struct("<f")


def f32(x):
    """round a Python float (double) to the nearest single, ties to even; overflow -> inf"""
    try:
        return _pack.unpack(_pack.pack(x))[0]
    except OverflowError:
        return math.copysign(math.inf, x)


def parse_f32(s):
    """Rust's str::parse::<f32>: correctly rounded from the decimal string"""
    s = s.strip()
    low = s.lower()
    if low in ("nan", "+nan", "-nan"):
        return math.nan
    if low in ("inf", "+inf", "infinity", "+infinity"):
        return math.inf
    if low in ("-inf", "-infinity"):
        return -math.inf
    # Python parses to the nearest double, then we round to single: double rounding can differ from a direct
    # decimal->single conversion only for decimal strings within 2^-29 relative of a single-precision tie;
    # the generators avoid such literals (short decimals).
    return f32(float(s))


def fstr(x):
    """svgdx types::fstr"""
    if x != x:
        return "NaN"
    if abs(x) < 0.0001:
        return "0"
    if math.isinf(x):
        return "inf" if x > 0 else "-inf"
    # (x as i32) saturates
    xi = max(-2147483648, min(2147483647, int(x)))
    if x == f32(float(xi)):
        return str(xi)
    r = "%.3f" % x
    return r.rstrip("0").rstrip(".")


def add(a, b):
    return f32(a + b)


def sub(a, b):
    return f32(a - b)


def mul(a, b):
    return f32(a * b)


def div(a, b):
    if b == 0:
        if a == 0 or a != a:
            return math.nan
        return math.copysign(math.inf, a) * (math.copysign(1.0, b))
    return f32(a / b)


def rem_euclid(a, b):
    """f32::rem_euclid: r = a % b (fmod, sign of a); if r < 0 { r + |b| }"""
    if b == 0 or math.isinf(a) or a != a or b != b:
        return math.nan
    if math.isinf(b):
        r = a
    else:
        r = f32(math.fmod(a, b))
    if r < 0.0:
        return f32(r + abs(b))
    return r


def rust_display(v):
    """Rust's `{}` for f32: shortest decimal digits that round-trip to the same f32, positional notation (no exponent)"""
    from decimal import Decimal
    if v != v:
        return "NaN"
    if math.isinf(v):
        return "inf" if v > 0 else "-inf"
    if v == 0:
        return "-0" if math.copysign(1.0, v) < 0 else "0"
    for p in range(1, 10):
        s = "%.*g" % (p, v)
        if f32(float(s)) == v:
            break
    d = Decimal(s)
    out = format(d, "f")
    if "." in out:
        out = out.rstrip("0").rstrip(".")
    return out


def rust_display_f64(v):
    """Rust's `{}` for f64 (shortest round-trip digits, positional notation) - svgdx's loop variable is an f64"""
    from decimal import Decimal
    if v != v:
        return "NaN"
    if math.isinf(v):
        return "inf" if v > 0 else "-inf"
    if v == 0:
        return "-0" if math.copysign(1.0, v) < 0 else "0"
    out = format(Decimal(repr(float(v))), "f")
    if "." in out:
        out = out.rstrip("0").rstrip(".")
    return out
