"""C04 Standard SVG content inside svgdx documents is accepted and preserved.

Grammar-driven generation from the SVG 1.1 BNFs (number, length, path data with all 20 commands / implicit repeats /
omitted separators / compact arc flags, points, transform lists, href and xlink:href, presentation attributes) over the
SVG 1.1 element vocabulary, in a root <svg> without namespace and as fragments. Oracle: the output tree (independent
parser) must equal the input tree after removing what the statement allows to be added; numbers at 3 decimals."""
import re

from . import core, xmlcanon

LEVEL = "exploration"
TECHNIQUE = "grammar-based workload + differential tree oracle (independent XML parser): output element tree vs input element tree modulo the documented additions"
LEVEL_TEXT = ("Held on the executions observed (apart from the listed known findings): ~6e4 generated documents over the SVG 1.1 vocabulary "
              "with values from the full number / length / path / points / transform grammars were accepted, and every element kept its name, "
              "attributes (numbers at 3 decimals), text and tree position; only root attributes and the style/defs blocks were added. "
              "Exploration over documents x value spellings.")
LEVEL_NOTE = ("Trusted: expat trees; numbers limited to |v| <= 4096 with <= 3 decimals; exotic carriers of dx/dy (tref, altGlyph) are not generated; "
              "the documented reinterpretation (character-only content of <text> re-emitted as generated text, classes d-text* added) is accepted.")
BUDGET_S = {"quick": 120, "thorough": 1200}
FLOOR = {"quick": 200, "thorough": 5000}
RULE = ("documents of <= 30 elements; non-trivial = contains a value using a grammar feature beyond 'integers separated by spaces'; distinct by hash(document, config)")
ASSUMPTIONS = ["UTF-8 documents; only the vocabulary the statement lists"]

NUMTOK = re.compile(r"[-+]?(?:\d+\.?\d*|\.\d+)(?:[eE][-+]?\d+)?")


class G:
    def __init__(self, rng):
        self.r = rng
        self.feats = set()
        self.ids = []
        self.n = 0
        self.defined = set()      # ids of definitions present in this document (url(#..) only refers to these)

    # ---- value grammars
    def number(self, lo=-200, hi=400, plain=False):
        r = self.r
        v = r.randint(lo * 8, hi * 8) / 8.0 if r.random() < 0.6 else float(r.randint(lo, hi))
        if plain:
            return "%g" % v
        k = r.random()
        if k < 0.55:
            return "%g" % v
        if k < 0.65 and v >= 0:
            self.feats.add("num.plus-sign")
            return "+%g" % v
        if k < 0.75 and 0 < abs(v) < 1:
            self.feats.add("num.leading-dot")
            return ("%g" % v).replace("0.", ".", 1)
        if k < 0.82 and v == int(v):
            self.feats.add("num.trailing-dot")
            return "%d." % int(v)
        if k < 0.92:
            self.feats.add("num.exponent")
            e = r.choice([1, 2, -1, -2])
            m = v / (10 ** e)
            s = "%ge%d" % (round(m, 6), e)
            return s if abs(float(s) - v) < 1e-9 else "%g" % v
        self.feats.add("num.exponent")
        return "%gE+0" % v

    def length(self):
        r = self.r
        if r.random() < 0.6:
            return self.number(0, 300)
        self.feats.add("length.unit")
        # SVG 1.1 length ::= number unit?: the number part takes the full number grammar (sign, leading / trailing dot, exponent)
        plain = r.random() < 0.5
        if not plain:
            self.feats.add("length.unit.full-number-grammar")
        return self.number(0, 300, plain=plain) + r.choice(["em", "ex", "px", "in", "cm", "mm", "pt", "pc", "%"])

    def sep(self):
        k = self.r.random()
        if k < 0.5:
            return " "
        if k < 0.8:
            self.feats.add("sep.comma")
            return self.r.choice([",", ", ", " ,"])
        return "  "

    def coord_pair(self, first=False):
        a, b = self.number(), self.number()
        r = self.r
        if b.startswith("-") and r.random() < 0.3:
            self.feats.add("sep.omitted-before-sign")
            return a + b
        return a + self.sep() + b

    def path_data(self):
        r = self.r
        d = "M" + r.choice(["", " "]) + self.coord_pair()
        cur_ok = True
        for _ in range(r.randint(1, 8)):
            c = r.choice("LlHhVvCcSsQqTtAaZzMm")
            self.feats.add("path." + c.upper())
            wsp = r.choice(["", " ", " "])
            if c in "Zz":
                d += wsp + c
                continue
            reps = r.choice([1, 1, 1, 2, 3])
            if reps > 1:
                self.feats.add("path.implicit-repeat")
            segs = []
            for _k in range(reps):
                if c in "LlMmTt":
                    segs.append(self.coord_pair())
                elif c in "HhVv":
                    segs.append(self.number())
                elif c in "Cc":
                    segs.append(self.sep().join(self.coord_pair() for _ in range(3)))
                elif c in "SsQq":
                    segs.append(self.sep().join(self.coord_pair() for _ in range(2)))
                else:
                    rx, ry, rot = self.number(1, 50, plain=True), self.number(1, 50, plain=True), self.number(-90, 90, plain=True)
                    fl, fs = r.choice("01"), r.choice("01")
                    if r.random() < 0.3:
                        self.feats.add("path.compact-arc-flags")
                        segs.append("%s %s %s %s%s%s" % (rx, ry, rot, fl, fs, self.coord_pair().lstrip("+")))
                    else:
                        segs.append("%s %s %s %s %s %s" % (rx, ry, rot, fl, fs, self.coord_pair()))
            d += wsp + c + r.choice(["", " "]) + self.sep().join(segs)
        return d

    def points(self):
        n = self.r.randint(2, 6)
        return self.sep().join(self.coord_pair() for _ in range(n))

    def transform(self):
        r = self.r
        parts = []
        for _ in range(r.randint(1, 3)):
            k = r.choice(["translate", "translate1", "scale", "scale1", "rotate", "rotate3", "skewX", "skewY", "matrix"])
            self.feats.add("transform." + k)
            a = lambda: self.number(-50, 50)      # noqa: E731
            s = self.sep
            if k == "translate":
                t = "translate(%s%s%s)" % (a(), s(), a())
            elif k == "translate1":
                t = "translate(%s)" % a()
            elif k == "scale":
                t = "scale(%s%s%s)" % (self.number(0, 4), s(), self.number(0, 4))
            elif k == "scale1":
                t = "scale(%s)" % self.number(0, 4)
            elif k == "rotate":
                t = "rotate(%s)" % a()
            elif k == "rotate3":
                t = "rotate(%s%s%s%s%s)" % (a(), s(), a(), s(), a())
            elif k in ("skewX", "skewY"):
                t = "%s(%s)" % (k, a())
            else:
                t = "matrix(%s)" % s().join(self.number(-3, 3) for _ in range(6))
            if r.random() < 0.15:
                t = t.replace("(", " (", 1)
                self.feats.add("transform.space-before-paren")
            parts.append(t)
        j = r.choice([" ", " ", ",", ", ", ""])
        if j == "":
            self.feats.add("transform.no-separator")
        out = j.join(parts)
        if r.random() < 0.2:
            # the grammar allows white space before and after the list
            out = r.choice(["", " ", "\n    "]) + out + r.choice([" ", "\n  ", "\t", "  "])
            self.feats.add("transform.outer-whitespace")
        return out

    def presentation(self):
        r = self.r
        out = []
        for _ in range(r.choice([0, 0, 1, 2, 3])):
            k = r.choice(["fill", "stroke", "stroke-width", "opacity", "fill-opacity", "stroke-dasharray", "font-size", "font-family", "style", "class",
                          "stroke-linecap", "visibility", "display", "fill-rule", "transform", "clip-path", "filter", "marker-end"])
            if k in ("clip-path", "filter", "marker-end") and r.random() < 0.25:
                # the keyword values of the reference-valued properties
                self.feats.add("keyword." + k)
                out.append((k, r.choice(["none", "inherit"])))
                continue
            if (k == "clip-path" and "clip0" not in self.defined) or (k == "filter" and "filt0" not in self.defined) or (k == "marker-end" and "mark0" not in self.defined):
                continue
            v = {"fill": r.choice(["red", "#fc0", "#12ab34", "rgb(1,2,3)", "rgb(10%, 20%, 30%)", "none", "currentColor"] + (["url(#grad0)"] if "grad0" in self.defined else [])),
                 "stroke": r.choice(["blue", "none", "#000"]), "stroke-width": self.length(), "opacity": r.choice(["0.5", ".25", "1"]),
                 "fill-opacity": r.choice(["0.5", "1e-1"]), "stroke-dasharray": r.choice(["5,5", "1 2 3", "none", "2.5, 1"]),
                 "font-size": self.length(), "font-family": r.choice(["serif", "'DejaVu Sans', Arial", "Helvetica Neue", '"Times New Roman", serif', '"Fira Code"']),
                 "style": r.choice(["fill:red;stroke:blue", "fill: #abc; opacity: .5", "font: 12px serif", 'font-family: "Fira Sans"; fill: red']), "class": r.choice(["a", "a b", "big-1"]),
                 "stroke-linecap": "round", "visibility": "hidden", "display": "inline", "fill-rule": "evenodd", "transform": None,
                 "clip-path": "url(#clip0)", "filter": "url(#filt0)", "marker-end": "url(#mark0)"}[k]
            if k == "transform":
                v = self.transform()
            out.append((k, v))
        return out

    # ---- elements
    def attrs_text(self, attrs):
        seen, parts = set(), []
        for k, v in attrs:
            if k in seen:
                continue
            seen.add(k)
            q = '"' if "'" in v or self.r.random() < 0.9 else "'"
            parts.append("%s=%s%s%s" % (k, q, v.replace("&", "&amp;").replace("<", "&lt;").replace(q, "&quot;" if q == '"' else "&apos;"), q))
        return (" " + " ".join(parts)) if parts else ""

    def el_id(self, prefix="e"):
        self.n += 1
        return "%s%d" % (prefix, self.n)

    def shape(self, depth):
        r = self.r
        k = r.choice(["rect", "circle", "ellipse", "line", "polyline", "polygon", "path", "text", "image", "use", "g", "a", "text-tspan", "switch"])
        self.feats.add("el." + k)
        ida = [("id", self.el_id())] if r.random() < 0.5 else []
        pres = self.presentation()
        if k == "rect":
            a = [("x", self.length()), ("y", self.length()), ("width", self.length()), ("height", self.length())] + ([("rx", self.length()), ("ry", self.length())] if r.random() < 0.3 else [])
            a = [p for p in a if r.random() < 0.9 or p[0] in ("width", "height")]
        elif k == "circle":
            a = [("cx", self.length()), ("cy", self.length()), ("r", self.length())]
        elif k == "ellipse":
            a = [("cx", self.length()), ("cy", self.length()), ("rx", self.length()), ("ry", self.length())]
        elif k == "line":
            a = [("x1", self.length()), ("y1", self.length()), ("x2", self.length()), ("y2", self.length())]
            if r.random() < 0.12:
                # coordinates left to their default (0): a line from the origin, or to it
                drop = r.choice([("x1", "y1"), ("x2", "y2"), ("x1",), ("y2",)])
                a = [p for p in a if p[0] not in drop]
                self.feats.add("line.default-coordinates")
        elif k in ("polyline", "polygon"):
            a = [("points", self.points())]
        elif k == "path":
            a = [("d", self.path_data())]
        elif k == "image":
            href = r.choice(["href", "xlink:href"])
            self.feats.add("href." + href)
            a = [("x", self.length()), ("y", self.length()), ("width", self.length()), ("height", self.length()), (href, "pic.png"), ("preserveAspectRatio", "xMidYMid meet")]
        elif k == "use":
            href = r.choice(["href", "xlink:href"])
            self.feats.add("href." + href)
            if not self.ids:
                return '<rect width="1" height="1"/>'
            tgt = r.choice(self.ids)
            a = [(href, "#" + tgt)] + ([("x", self.number()), ("y", self.number())] if r.random() < 0.7 else []) + ([("width", self.length()), ("height", self.length())] if r.random() < 0.2 else [])
        elif k == "text":
            content = r.choice(["Hello", "a &amp; b", "x &lt; y", "multi word text", "  padded  ", "&#169; 2024"])
            if r.random() < 0.15:
                # character data in several pieces: text around a CDATA section, consecutive CDATA sections
                content = r.choice(["a<![CDATA[b < c]]>d", "<![CDATA[one]]><![CDATA[ two]]>", "x &amp; <![CDATA[y & z]]>", "<![CDATA[only]]>", "<![CDATA[head]]> tail"])
                self.feats.add("text.cdata-pieces")
            def coord():
                kk = r.random()
                if kk < 0.5:
                    return self.number()
                if kk < 0.7:
                    self.feats.add("text.coordinate-list")
                    return " ".join(self.number(0, 100, plain=True) for _ in range(3))
                self.feats.add("text.coordinate-unit")
                return self.number(0, 100, plain=True) + r.choice(["%", "em", "mm", "px", "ex"])
            # either coordinate may be left out (SVG default 0)
            pres_k = r.random()
            xy = [("x", coord()), ("y", coord())] if pres_k < 0.6 else [("x", coord())] if pres_k < 0.75 else [("y", coord())] if pres_k < 0.9 else []
            if len(xy) == 1:
                self.feats.add("text.single-coordinate")
            a = xy + ([("dx", self.number(-5, 5)), ("dy", "1 2 3")] if r.random() < 0.2 else []) + \
                ([("text-anchor", "middle")] if r.random() < 0.3 else []) + ([("rotate", "10 20")] if r.random() < 0.1 else [])
            return "<text%s>%s</text>" % (self.attrs_text(ida + a + pres), content)
        elif k == "text-tspan":
            a = [("x", self.number()), ("y", self.number())]
            spans = "".join('<tspan%s>%s</tspan>' % (self.attrs_text([("x", self.number()), ("dy", r.choice(["1.2em", "5", "-3"]))] if r.random() < 0.7 else [("dx", "1 2"), ("font-weight", "bold")]),
                                                      r.choice(["one", "two &amp; three", "3"])) for _ in range(r.randint(1, 3)))
            lead = r.choice(["", "lead "])
            return "<text%s>%s%s</text>" % (self.attrs_text(ida + a + pres), lead, spans)
        elif k in ("g", "a", "switch"):
            if depth >= 3:
                return self.shape(depth + 1) if False else '<rect width="1" height="1"/>'
            extra = [(r.choice(["href", "xlink:href"]), "http://example.com/?a=1&b=2")] if k == "a" else []
            if k == "a":
                self.feats.add("el.a")
            kids = "".join(self.shape(depth + 1) for _ in range(r.randint(1, 3)))
            if r.random() < 0.06:
                # long plain values (well beyond any limit meant for variables) on a container
                self.feats.add("value.long-on-container")
                extra = extra + [r.choice([("transform", " ".join("translate(%d,%d)" % (i % 7, i % 5) for i in range(r.choice([90, 140, 400])))),
                                           ("style", ";".join("--p%d: %d" % (i, i) for i in range(r.choice([120, 300])))),
                                           ("class", " ".join("cls%d" % i for i in range(260)))])]
            return "<%s%s>%s</%s>" % (k, self.attrs_text(ida + extra + pres), kids, k)
        if ida and k in ("rect", "circle", "ellipse", "path", "polygon"):
            self.ids.append(ida[0][1])
        body = ""
        if r.random() < 0.12:
            body = r.choice(["<title>tip &amp; trick</title>", "<desc>described</desc>", '<animate attributeName="x" from="0" to="10" dur="1s" begin="0s" end="5s"/>',
                             '<set attributeName="fill" to="red" begin="1s"/>'])
            self.feats.add("el.child-of-shape")
            return "<%s%s>%s</%s>" % (k, self.attrs_text(ida + a + pres), body, k)
        # three spellings of an element without content: empty-element tag, start tag directly followed by the end tag (what
        # DOM serialisers write), start and end tag around white space
        sp = r.random()
        if sp < 0.7:
            return "<%s%s/>" % (k, self.attrs_text(ida + a + pres))
        if sp < 0.9:
            self.feats.add("spelling.start-end")
            return "<%s%s></%s>" % (k, self.attrs_text(ida + a + pres), k)
        self.feats.add("spelling.start-ws-end")
        return "<%s%s>%s</%s>" % (k, self.attrs_text(ida + a + pres), r.choice([" ", "\n", "\n    ", "\t", "\n\t", "\r\n  ", "\r\n\t", " \t "]), k)

    def defs(self):
        r = self.r
        parts = []
        if r.random() < 0.7:
            parts.append('<linearGradient id="grad0" x1="0%%" y1="0" x2="100%%" y2="%s" gradientUnits="%s" gradientTransform="%s"><stop offset="0" stop-color="red"/>'
                         '<stop offset="50%%" stop-color="#0f0" stop-opacity=".5"/><stop offset="1" style="stop-color:blue"/></linearGradient>' % (
                             self.number(0, 1, plain=True), r.choice(["userSpaceOnUse", "objectBoundingBox"]), self.transform()))
            self.feats.add("el.linearGradient")
            self.defined.add("grad0")
        if r.random() < 0.4:
            parts.append('<radialGradient id="rad0" cx="50%" cy="50%" r="50%" fx="25%" fy=".25"><stop offset="0%" stop-color="white"/><stop offset="100%" stop-color="black"/></radialGradient>')
            self.feats.add("el.radialGradient")
            self.defined.add("rad0")
        if r.random() < 0.5:
            parts.append('<marker id="mark0" markerWidth="%s" markerHeight="6" refX="3" refY="3" orient="auto" viewBox="0 0 6 6" markerUnits="strokeWidth"><path d="M0 0L6 3L0 6z"/></marker>' % self.number(1, 10, plain=True))
            self.feats.add("el.marker")
            self.defined.add("mark0")
        if r.random() < 0.5:
            parts.append('<filter id="filt0" x="-10%%" y="-10%%" width="120%%" height="120%%"><feGaussianBlur in="SourceAlpha" stdDeviation="%s"/><feOffset dx="%s" dy="2" result="o"/>'
                         '<feMerge><feMergeNode in="o"/><feMergeNode in="SourceGraphic"/></feMerge></filter>' % (r.choice(["2", "1.5 .5"]), self.number(-3, 3)))
            self.feats.add("el.filter+feOffset")
            self.defined.add("filt0")
        if r.random() < 0.5:
            parts.append('<clipPath id="clip0" clipPathUnits="userSpaceOnUse"><rect x="%s" y="0" width="50" height="50"/><circle cx="10" cy="10" r="5"/></clipPath>' % self.number())
            self.feats.add("el.clipPath")
            self.defined.add("clip0")
        if r.random() < 0.4:
            parts.append('<symbol id="sym0" viewBox="0 0 10 10"><circle cx="5" cy="5" r="%s"/></symbol>' % self.number(1, 5))
            self.ids.append("sym0")
            self.feats.add("el.symbol")
            self.defined.add("sym0")
        if r.random() < 0.3:
            parts.append('<pattern id="pat0" x="0" y="0" width="4" height="4" patternUnits="userSpaceOnUse" patternTransform="%s"><rect width="2" height="2"/></pattern>' % self.transform())
            self.feats.add("el.pattern")
            self.defined.add("pat0")
        if r.random() < 0.3:
            parts.append('<mask id="mask0"><rect width="100%" height="100%" fill="white"/></mask>')
        return "<defs>%s</defs>" % "".join(parts) if parts else ""

    def document(self):
        r = self.r
        body = []
        d = self.defs()
        if d:
            body.append(d)
        if r.random() < 0.25:
            body.append(r.choice(["<style>rect { fill: red; }</style>", "<style type=\"text/css\"><![CDATA[ .a > .b { fill: url(#grad0); } ]]></style>"]))
            self.feats.add("el.style")
        if r.random() < 0.2:
            body.insert(0, "<title>Doc &amp; title</title>")
            self.feats.add("el.title")
        if r.random() < 0.15:
            body.append("<desc>A description</desc>")
        for _ in range(r.randint(1, 8)):
            body.append(self.shape(0))
        if r.random() < 0.15:
            body.append('<foreignObject x="0" y="0" width="100" height="50"><div xmlns="http://www.w3.org/1999/xhtml"><p>html <b>bold</b> &amp; text</p></div></foreignObject>')
            self.feats.add("el.foreignObject")
        if r.random() < 0.1:
            body.append("<!-- a comment -->")
        root = r.random() < 0.75
        joiner = r.choice(["\n  ", "\n", ""])
        if root:
            ra = r.choice(["", "", ' width="200" height="100"', ' viewBox="0 0 200 100"', ' width="10cm" height="5cm" viewBox="0 0 200 100" preserveAspectRatio="xMidYMid slice"',
                           ' xmlns:xlink="http://www.w3.org/1999/xlink"', ' id="root" class="top" style="background:#eee"'])
            if any("xlink:" in b for b in body) and "xmlns:xlink" not in ra:
                ra += ' xmlns:xlink="http://www.w3.org/1999/xlink"'
            return "<svg%s>%s%s%s</svg>" % (ra, joiner, joiner.join(body), joiner.rstrip(" ")), True
        return joiner.join(body), False


def tokens_equal(a, b):
    if a == b:
        return True
    ta, tb = NUMTOK.split(a), NUMTOK.split(b)
    na, nb = NUMTOK.findall(a), NUMTOK.findall(b)
    if [t.strip() for t in ta] != [t.strip() for t in tb] or len(na) != len(nb):
        return False
    for x, y in zip(na, nb):
        try:
            if abs(float(x) - float(y)) > 0.0006 + 1e-6 * abs(float(x)):
                return False
        except ValueError:
            return False
    return True


ROOT_ADDABLE = {"version", "xmlns", "width", "height", "viewBox", "id", "style"}


def strip_ws(children):
    return [c for c in children if not (isinstance(c, str) and not c.strip()) and not (isinstance(c, tuple) and c[0] == "comment")]


def compare(inp, out, path, is_root_svg, diffs):
    """inp, out: xmlcanon.Element; records (kind, path, detail) into diffs"""
    if inp.name != out.name:
        diffs.append(("element-name", path, "%s -> %s" % (inp.name, out.name)))
        return
    ia, oa = dict(inp.attrs), dict(out.attrs)
    text_only = inp.name == "text" and inp.elements() == [] and inp.text().strip() != ""
    for k, v in ia.items():
        if k not in oa:
            diffs.append(("attr-dropped", path, "%s/@%s" % (inp.name, k)))
        elif not tokens_equal(v, oa[k]):
            if k == "class" and set(v.split()) <= set(oa[k].split()) and all(c.startswith("d-text") for c in set(oa[k].split()) - set(v.split())):
                continue
            diffs.append(("attr-value", path, "%s/@%s: %r -> %r" % (inp.name, k, v, oa[k])))
    for k in oa:
        if k not in ia:
            if is_root_svg and k in ROOT_ADDABLE:
                continue
            if text_only and (k in ("x", "y") or (k == "class" and all(c.startswith("d-text") for c in oa[k].split()))):
                continue      # documented re-emission of character-only <text> content as generated text
            diffs.append(("attr-added", path, "%s/@%s=%r" % (inp.name, k, oa[k])))
    ic, oc = strip_ws(inp.children), strip_ws(out.children)
    if is_root_svg:
        # injected <style>/<defs> are the first children of the root and are not in the input
        while oc and isinstance(oc[0], xmlcanon.Element) and oc[0].name in ("style", "defs") and not (ic and isinstance(ic[0], xmlcanon.Element) and ic[0].name == oc[0].name and
                                                                                                      (len(oc) == len(ic))):
            if len(oc) > len(ic):
                oc = oc[1:]
            else:
                break
    if len(ic) != len(oc):
        diffs.append(("children", path, "%s: %d children -> %d (%s -> %s)" % (inp.name, len(ic), len(oc), [c.name if isinstance(c, xmlcanon.Element) else "#text" for c in ic][:8],
                                                                                 [c.name if isinstance(c, xmlcanon.Element) else "#text" for c in oc][:8])))
        return
    for i, (a, b) in enumerate(zip(ic, oc)):
        if isinstance(a, str) != isinstance(b, str):
            diffs.append(("children", path, "%s: child %d kind differs" % (inp.name, i)))
            return
        if isinstance(a, str):
            if a.strip() != b.strip():
                diffs.append(("text", path, "%s: %r -> %r" % (inp.name, a, b)))
        else:
            compare(a, b, path + "/" + a.name, False, diffs)


def check_case(ctx, case):
    acc = ctx.acc
    acc.cases += 1
    cfg = case.get("cfg")
    r = ctx.run(case["input"], cfg)
    if r.crashed:
        acc.count("crashed(C01's business)")
        return
    if case.get("nontrivial"):
        acc.nontriv(core.chash(case["input"], core.encode_cfg(cfg)), case.get("feats", []))
    if not r.ok:
        err = r.err or ""
        m = re.search(r"\d+: (\w[\w:-]*) ", err)
        el = m.group(1) if m else "?"
        el = el if el in ("path", "polyline", "polygon", "use", "text", "tspan") else "*"
        cls = re.sub(r"'[^']*'|\"[^\"]*\"|[-\d.]+", "_", err.split(": ")[-1])[:50]
        kind = "?"
        mm = re.search(r"(Expected a number|Invalid path|Unknown transform|missing attribute 'href'|Missing bounding box|float|Ran out of data|Invalid number of arguments|No closing bracket|Reference error|Invalid data)", err)
        kind = mm.group(1) if mm else cls
        acc.violation("rejected", "rejected:%s/%s" % (el, kind), case, observed=core.trunc(err, 400), expected="Ok",
                      what="standard SVG content rejected: %s" % core.trunc(err, 240))
        return
    try:
        it = xmlcanon.parse_tree(case["input"], fragment=True)
        ot = xmlcanon.parse_tree(r.out, fragment=True)
    except xmlcanon.XMLError as e:
        acc.violation("output-illformed", "output-illformed", case, observed=str(e), expected="XML")
        return
    diffs = []
    ie, oe = strip_ws(it.children), strip_ws(ot.children)
    if len(ie) != len(oe):
        diffs.append(("children", "", "top level: %d -> %d nodes" % (len(ie), len(oe))))
    else:
        for a, b in zip(ie, oe):
            if isinstance(a, xmlcanon.Element) and isinstance(b, xmlcanon.Element):
                compare(a, b, a.name, case["root"] and a.name == "svg", diffs)
            elif isinstance(a, str) and isinstance(b, str):
                if a.strip() != b.strip():
                    diffs.append(("text", "", "top-level text differs"))
            else:
                diffs.append(("children", "", "top-level node kind differs"))
    seen = set()
    for kind, path, detail in diffs:
        leaf = path.split("/")[-1]
        attr = re.search(r"@([\w:-]+)", detail)
        sig = "%s:%s%s" % (kind, leaf, ("/@" + attr.group(1)) if attr else "")
        if sig in seen:
            continue
        seen.add(sig)
        acc.violation("not-preserved", sig, case, observed=detail, expected="identical to the input", what="%s at %s: %s" % (kind, path, detail))
        if len(seen) >= 3:
            break


def run_shard(ctx):
    acc = ctx.acc
    rng = ctx.rng("svg")
    n = 9000 if ctx.quick() else 200000
    for j in range(n):
        if ctx.out_of_time():
            acc.notes.append("time budget reached after %d docs" % j)
            break
        g = G(rng)
        doc, root = g.document()
        cfg = dict(auto=False) if rng.random() < 0.7 else (dict(theme=rng.choice(["default", "dark"])) if rng.random() < 0.5 else None)
        if rng.random() < 0.12:
            # limits meant for variables and loops lowered: plain SVG content uses neither
            cfg = dict(cfg or {}, var=rng.choice([0, 8, 16, 64]))
            if rng.random() < 0.5:
                cfg["loop"] = rng.choice([0, 1, 5])
            g.feats.add("config.low-var-loop-limits")
        case = dict(input=doc.encode("utf-8"), cfg=cfg, root=root, feats=sorted(g.feats), nontrivial=any(f.startswith(("num.", "sep.", "path.", "transform.", "length.", "href.", "text.")) for f in g.feats))
        check_case(ctx, case)
        if j < 2:
            acc.sample(dict(input=core.trunc(doc, 700), cfg=cfg))
