"""C12 Containment: surround encloses, inside is enclosed.

Base shapes come from the layout generator (exact boxes); containment elements are added in random document
positions (so some references are forward references). Oracle: exact equality for rect-surround with absolute
margins; one-consistent-base rule for percent margins; geometric inequalities (tolerance 0.002) for
circle/ellipse surround and for inside."""
import math
from fractions import Fraction as F

from . import core, geom, layout
from .geom import Box, fmt

LEVEL = "exploration"
TECHNIQUE = "reference-model runtime oracle: union/intersection/margin geometry recomputed independently and checked as equalities / inequalities on the parsed output"
LEVEL_TEXT = ("Held on the executions observed: ~5e4 containment elements over 1-4 referenced shapes (rect, circle, ellipse, line, "
              "group, box, other surround elements, forward references) x container kinds x margin forms (1-4 values, absolute, "
              "percent, negative): rect-surround equalled union+margin exactly, circle/ellipse surround contained all four corners, "
              "inside elements lay within every listed shape, and surround/inside/margin never reached the output.")
LEVEL_NOTE = ("Trusted: model boxes of the referenced shapes (layout generator, validated by C09). The statement does not say what a "
              "percent margin is a percentage of: a rect-surround with percent margins is accepted if it equals the grown box under one "
              "consistent base among {larger side, smaller side, own axis}. For 'inside', containment (not equality) is required; margins "
              "are only generated when all listed shapes are rectangles; disjoint lists are not generated.")
BUDGET_S = {"quick": 120, "thorough": 1200}
FLOOR = {"quick": 200, "thorough": 5000}
RULE = ("documents = 2..6 base shapes + 1..3 containment elements; non-trivial = the containment element was accepted and refers to "
        ">= 1 shape; distinct by hash(document)")
ASSUMPTIONS = ["coordinates on a 1/4 grid"]
TOL = 0.002


def margin_spec(rng, allow_pct=True, allow_neg=True):
    n = rng.choice([1, 1, 2, 3, 4])
    vals = []
    for _ in range(n):
        k = rng.random()
        if allow_pct and k < 0.3:
            vals.append(("pct", F(rng.choice([10, 25, 50, 100, 5]))))
        elif allow_neg and k < 0.4:
            vals.append(("abs", -F(rng.randint(1, 8), 4)))
        else:
            vals.append(("abs", F(rng.randint(0, 40), 4)))
    text = rng.choice([" ", ",", ", "]).join(fmt(v) + ("%" if k == "pct" else "") for k, v in vals)
    # CSS order: 1 -> all; 2 -> t/b, l/r; 3 -> t, l/r, b; 4 -> t r b l
    if n == 1:
        trbl = [vals[0]] * 4
    elif n == 2:
        trbl = [vals[0], vals[1], vals[0], vals[1]]
    elif n == 3:
        trbl = [vals[0], vals[1], vals[2], vals[1]]
    else:
        trbl = vals
    return text, trbl


def grow(box, trbl, base_rule, sign=1):
    """candidate grown boxes; base_rule in larger/smaller/axis"""
    def val(m, axis_len):
        k, v = m
        if k == "abs":
            return v
        base = {"larger": max(box.w, box.h), "smaller": min(box.w, box.h), "axis": axis_len}[base_rule]
        return base * v / 100
    t, r, b, l = val(trbl[0], box.h), val(trbl[1], box.w), val(trbl[2], box.h), val(trbl[3], box.w)
    return Box(box.x1 - sign * l, box.y1 - sign * t, box.x2 + sign * r, box.y2 + sign * b)


def fbox(b):
    return tuple(float(v) for v in b.tuple())


def contains_point_shape(shape, box, px, py, tol=TOL):
    x1, y1, x2, y2 = fbox(box)
    if shape in ("circle", "ellipse"):
        cx, cy, rx, ry = (x1 + x2) / 2, (y1 + y2) / 2, (x2 - x1) / 2, (y2 - y1) / 2
        if rx <= 0 or ry <= 0:
            return abs(px - cx) <= tol and abs(py - cy) <= tol
        return ((px - cx) / rx) ** 2 + ((py - cy) / ry) ** 2 <= 1 + 4 * tol / min(rx, ry) + 1e-6
    return x1 - tol <= px <= x2 + tol and y1 - tol <= py <= y2 + tol


def boundary_points(shape, el):
    if shape == "rect":
        b = geom.out_box(el)
        if b is None:
            raise ValueError("no geometry on the output element")
        x1, y1, x2, y2 = fbox(b)
        return [(x1, y1), (x2, y1), (x2, y2), (x1, y2)]
    cx, cy = float(geom.attr_num(el, "cx", F(0))), float(geom.attr_num(el, "cy", F(0)))
    if shape == "circle":
        rx = ry = float(geom.attr_num(el, "r"))
    else:
        rx, ry = float(geom.attr_num(el, "rx")), float(geom.attr_num(el, "ry"))
    return [(cx + rx * math.cos(a * math.pi / 8), cy + ry * math.sin(a * math.pi / 8)) for a in range(16)]


def make_case(rng):
    while True:
        g = layout.LayoutGen(rng, exact=True, use_prev=False, shapes=["rect", "rect", "circle", "ellipse", "line", "box"]).build(rng.randint(2, 6))
        # degenerate (zero-width/height) shapes make 'circumscribes' / 'inscribed area' meaningless: not generated
        if all(e.box.w > 0 and e.box.h > 0 for e in g.all.values() if e.box is not None and e.shape != "line"):
            break
    items = [e.render() for e in g.els]
    boxes = {eid: (e.shape, e.box) for eid, e in g.all.items() if e.box is not None}
    conts = []
    tops = [e for e in g.els if e.box is not None]
    prior = []   # earlier surround elements usable as targets (rect-surround with abs margin: exactly known)
    for ci in range(rng.randint(1, 3)):
        cid = "c%d" % ci
        mode = rng.choice(["surround", "surround", "inside"])
        if mode == "surround":
            cand = tops + prior
            refs = rng.sample(cand, min(len(cand), rng.choice([1, 1, 2, 3, 4])))
            shape = rng.choice(["rect", "rect", "circle", "ellipse"])
            has_margin = rng.random() < 0.7
            mtext, trbl = margin_spec(rng) if has_margin else ("", [("abs", F(0))] * 4)
            u = None
            for t in refs:
                tb = t.box if hasattr(t, "box") else t[1]
                u = tb if u is None else u.union(tb)
            if u.w == 0 or u.h == 0:
                shape = "rect"       # circumscribing a degenerate box is not meaningful
            if has_margin:
                neg = max([-v for k, v in trbl if k == "abs" and v < 0] or [F(0)])
                if neg * 4 >= min(u.w, u.h) or (u.w == 0 or u.h == 0):
                    # a negative margin larger than the box would give a negative size
                    has_margin, mtext, trbl = False, "", [("abs", F(0))] * 4
            s = '  <%s id="%s" surround="%s"%s/>' % (shape, cid, rng.choice([" ", ", "]).join("#" + (t.id if hasattr(t, "id") else t[0]) for t in refs),
                                                  (' margin="%s"' % mtext) if has_margin else "")
            conts.append(dict(id=cid, mode=mode, shape=shape, union=[fmt(v) for v in u.tuple()], trbl=[(k, fmt(v)) for k, v in trbl],
                              feats=["surround." + shape, "margin.n%d" % len(mtext.replace(",", " ").split()) if has_margin else "margin.none"] +
                              (["margin.pct"] if any(k == "pct" for k, _ in trbl) else []) + (["margin.negative"] if any(v < 0 for _, v in trbl) else []) +
                              ["ref." + (t.shape if hasattr(t, "shape") else "surround") for t in refs]))
            if shape == "rect" and all(k == "abs" for k, _ in trbl):
                gb = grow(u, trbl, "larger")
                if gb.w >= 0 and gb.h >= 0:
                    class P:
                        pass
                    p = P()
                    p.id, p.box, p.shape = cid, gb, "surround-rect"
                    prior.append(p)
        else:
            cand = [t for t in tops if t.shape in ("rect", "circle", "ellipse", "box")]
            if not cand:
                continue
            refs = rng.sample(cand, min(len(cand), rng.choice([1, 1, 2])))
            if len(refs) > 1 and not all(t.shape in ("rect", "box") for t in refs):
                refs = refs[:1]      # what the common inscribed area of several round shapes is, is not stated: single round refs only
            inter = None
            for t in refs:
                inter = t.box if inter is None else inter.intersect(t.box)
                if inter is None:
                    break
            if inter is None or inter.w <= 0 or inter.h <= 0:
                refs = refs[:1]
                inter = refs[0].box
            shape = rng.choice(["rect", "rect", "circle", "ellipse"])
            all_rect = all(t.shape in ("rect", "box") for t in refs)
            has_margin = all_rect and rng.random() < 0.5
            mtext, trbl = margin_spec(rng, allow_pct=False, allow_neg=False) if has_margin else ("", [("abs", F(0))] * 4)
            lopsided = False
            if has_margin and rng.random() < 0.35 and inter.w >= 2 and inter.h >= 2:
                # lopsided margin: one side (or one per axis) takes more than half of the common area while the opposite side
                # takes little, so an area is left but it lies entirely on one side of the centre
                def split(extent):
                    big = F(int(extent * 4 * rng.choice([55, 70, 85]) / 100), 4)
                    small = F(rng.randint(0, max(0, int((extent - big) * 4) - 2)), 4) if rng.random() < 0.5 else F(0)
                    return (big, small) if rng.random() < 0.5 else (small, big)
                (mt, mb), (ml, mr) = split(inter.h), split(inter.w)
                if rng.random() < 0.5:
                    if rng.random() < 0.5:
                        mt, mb = F(rng.randint(0, 4), 4), F(rng.randint(0, 4), 4)
                    else:
                        ml, mr = F(rng.randint(0, 4), 4), F(rng.randint(0, 4), 4)
                vals = [("abs", mt), ("abs", mr), ("abs", mb), ("abs", ml)]
                mtext, trbl, lopsided = rng.choice([" ", ",", ", "]).join(fmt(v) for _, v in vals), vals, True
            if has_margin and (trbl[0][1] + trbl[2][1] + F(1, 2) >= inter.h or trbl[1][1] + trbl[3][1] + F(1, 2) >= inter.w):
                has_margin, mtext, trbl, lopsided = False, "", [("abs", F(0))] * 4, False     # margin would leave no area
            s = '  <%s id="%s" inside="%s"%s/>' % (shape, cid, " ".join("#" + t.id for t in refs), (' margin="%s"' % mtext) if has_margin else "")
            conts.append(dict(id=cid, mode=mode, shape=shape, refs=[(t.id, t.shape, [fmt(v) for v in t.box.tuple()]) for t in refs],
                              trbl=[(k, fmt(v)) for k, v in trbl], feats=["inside." + shape] + ["ref." + t.shape for t in refs] + (["margin.inside"] if has_margin else []) + (["margin.inside.lopsided"] if lopsided else [])))
        items.insert(rng.randint(0, len(items)), s)
    if rng.random() < 0.2:
        # 'inside' with three or more listed rects whose common area is known: any of them (first, middle, last) may be the
        # tightest on some side
        k = rng.choice([3, 3, 4, 5])
        cx0, cy0 = F(rng.randint(-40, 120), 4), F(rng.randint(-40, 120), 4)
        cw, ch = F(rng.randint(8, 60), 4), F(rng.randint(8, 60), 4)
        ms = []
        inter = None
        for j in range(k):
            l, t_, r_, b = [F(rng.choice([0, 0, 1, 2, 6, 15]), 2) for _ in range(4)]
            bx = Box(cx0 - l, cy0 - t_, cx0 + cw + r_, cy0 + ch + b)
            ms.append(("m%d" % j, bx))
            inter = bx if inter is None else inter.intersect(bx)
        order = list(range(k))
        rng.shuffle(order)
        for j in order:
            mid, bx = ms[j]
            items.insert(rng.randint(0, len(items)), '  <rect id="%s" xy="%s %s" wh="%s %s"/>' % (mid, fmt(bx.x1), fmt(bx.y1), fmt(bx.w), fmt(bx.h)))
        lst = [ms[j] for j in order]
        rng.shuffle(lst)
        shape = rng.choice(["rect", "rect", "circle", "ellipse"])
        items.append('  <%s id="cm" inside="%s"/>' % (shape, " ".join("#" + mid for mid, _ in lst)))
        conts.append(dict(id="cm", mode="inside", shape=shape, refs=[(mid, "rect", [fmt(v) for v in bx.tuple()]) for mid, bx in lst],
                          trbl=[("abs", "0")] * 4, feats=["inside." + shape, "inside.list>=3"]))
    if rng.random() < 0.12:
        # 'inside' listed elements whose common area is degenerate - a rect crossed by a horizontal / vertical line, two rects
        # sharing an edge or only a corner: the common area is a segment or a point, and a negative margin grows it into a box
        x0, y0 = F(rng.randint(400, 480), 2), F(rng.randint(-60, 60), 2)
        w, h = F(rng.randint(8, 40), 2), F(rng.randint(8, 40), 2)
        a = Box(x0, y0, x0 + w, y0 + h)
        kind = rng.choice(["hline", "vline", "edge", "corner"])
        if kind == "hline":
            yl = y0 + F(rng.randint(1, 7), 8) * h
            b = Box(x0 - F(rng.randint(0, 6)), yl, x0 + w + F(rng.randint(0, 6)), yl)
            btxt = '  <line id="dg2" xy1="%s %s" xy2="%s %s"/>' % (fmt(b.x1), fmt(b.y1), fmt(b.x2), fmt(b.y2))
        elif kind == "vline":
            xl = x0 + F(rng.randint(1, 7), 8) * w
            b = Box(xl, y0 - F(rng.randint(0, 6)), xl, y0 + h + F(rng.randint(0, 6)))
            btxt = '  <line id="dg2" xy1="%s %s" xy2="%s %s"/>' % (fmt(b.x1), fmt(b.y1), fmt(b.x2), fmt(b.y2))
        elif kind == "edge":
            b = Box(x0 + w, y0 - F(rng.randint(0, 4)), x0 + w + F(rng.randint(2, 20)), y0 + h + F(rng.randint(0, 4)))
            btxt = '  <rect id="dg2" xy="%s %s" wh="%s %s"/>' % (fmt(b.x1), fmt(b.y1), fmt(b.w), fmt(b.h))
        else:
            b = Box(x0 + w, y0 + h, x0 + w + F(rng.randint(2, 20)), y0 + h + F(rng.randint(2, 20)))
            btxt = '  <rect id="dg2" xy="%s %s" wh="%s %s"/>' % (fmt(b.x1), fmt(b.y1), fmt(b.w), fmt(b.h))
        items.append('  <rect id="dg1" xy="%s %s" wh="%s %s"/>' % (fmt(a.x1), fmt(a.y1), fmt(a.w), fmt(a.h)))
        items.append(btxt)
        m = rng.choice([-1, -2, -5, F(-3, 2)])
        shape = rng.choice(["rect", "rect", "circle", "ellipse"])
        lst = ["#dg1", "#dg2"]
        rng.shuffle(lst)
        items.append('  <%s id="cdg" inside="%s" margin="%s"/>' % (shape, " ".join(lst), fmt(m)))
        conts.append(dict(id="cdg", mode="inside", shape=shape, refs=[("dg1", "rect", [fmt(v) for v in a.tuple()]), ("dg2", "rect", [fmt(v) for v in b.tuple()])],
                          trbl=[("abs", fmt(m))] * 4, feats=["inside." + shape, "inside.degenerate-common-area." + kind, "margin.negative"]))
    if rng.random() < 0.05:
        # 'inside' listed elements without any common area: whatever svgdx makes of it (an error, or an element without
        # geometry), the control attributes must not survive
        x0, y0 = F(rng.randint(200, 300)), F(rng.randint(200, 300))
        items.append('  <rect id="dj1" xy="%s %s" wh="5 5"/>' % (fmt(x0), fmt(y0)))
        items.append('  <rect id="dj2" xy="%s %s" wh="5 5"/>' % (fmt(x0 + 20), fmt(y0)))
        shape = rng.choice(["rect", "circle", "ellipse"])
        items.append('  <%s id="cdj" inside="#dj1 #dj2"%s/>' % (shape, rng.choice(["", ' margin="1"', ' margin="1 2"', ' margin="10%"'])))
        conts.append(dict(id="cdj", mode="leftover-only", shape=shape, trbl=[("abs", "0")] * 4, feats=["inside.disjoint"]))
    if rng.random() < 0.06 and tops:
        # negative family: a listed element that has no bounding box (empty group, size in absolute units) - the container
        # cannot enclose 'all listed elements', so the document must be rejected rather than the member silently dropped
        kind, member = rng.choice([("empty-group", '<g id="nb"/>'), ("unit-size", '<rect id="nb" x="1" y="2" width="3cm" height="10%"/>'),
                                   ("empty-group-content", '<g id="nb"><title>t</title></g>')])
        mode = rng.choice(["surround", "surround", "inside"])
        others = rng.sample(tops, min(len(tops), rng.choice([1, 2]))) if mode == "surround" else [t for t in tops if t.shape in ("rect", "box")][:1]
        refs = ["#nb"] + ["#" + t.id for t in others]
        rng.shuffle(refs)
        items.insert(rng.randint(0, len(items)), "  " + member)
        items.append('  <rect id="neg" %s="%s"/>' % (mode, " ".join(refs)))
        return dict(input=("<svg>\n" + "\n".join(items) + "\n</svg>").encode(), conts=[], expect_reject="%s/%s" % (mode, kind),
                    feats=["negative.boxless-member." + kind, "negative." + mode])
    return dict(input=("<svg>\n" + "\n".join(items) + "\n</svg>").encode(), conts=conts, feats=sorted(set(f for c in conts for f in c["feats"])))


def check_case(ctx, case):
    acc = ctx.acc
    acc.cases += 1
    r = ctx.run(case["input"], dict(auto=False))
    if r.crashed:
        acc.count("crashed(C01's business)")
        return
    if case.get("expect_reject"):
        acc.nontriv(core.chash(case["input"]), case.get("feats", []))
        if r.ok:
            acc.violation("boxless-member-dropped", "accepted-with-boxless-member:" + case["expect_reject"], case, observed=core.trunc(r.out, 400), expected="Err",
                          what="a surround/inside list names an element without a bounding box (#nb) and the document was accepted: the member was silently left out")
        return
    if not r.ok:
        acc.violation("rejected", "rejected:" + str(r.kind), case, observed=core.trunc(r.err, 400), expected="Ok",
                      what="containment document rejected: %s" % core.trunc(r.err, 200))
        return
    ids = geom.by_id(geom.parse_out(r.out))
    acc.nontriv(core.chash(case["input"]), case.get("feats", []))
    for c in case["conts"]:
        el = ids.get(c["id"])
        if el is None:
            acc.violation("element-missing", "element-missing:" + c["mode"], case, observed=sorted(ids), expected=c["id"])
            continue
        left = [a for a in ("surround", "inside", "margin") if a in el.attrs]
        if left:
            acc.violation("attribute-left", "leftover(%s)" % ",".join(left), dict(case, element=c["id"]), observed=el.attrs, expected="no surround/inside/margin")
        trbl = [(k, geom.fr(v)) for k, v in c["trbl"]]
        if c["mode"] == "leftover-only":
            continue
        try:
            if c["mode"] == "surround":
                u = Box(*[geom.fr(v) for v in c["union"]])
                cands = {rule: grow(u, trbl, rule) for rule in ("larger", "smaller", "axis")}
                if c["shape"] == "rect":
                    got = geom.out_box(el)
                    if got is None or not any(all(abs(float(a) - float(b)) <= 0.0011 for a, b in zip(got.tuple(), cb.tuple())) for cb in cands.values()):
                        pct = any(k == "pct" for k, _ in trbl)
                        acc.violation("surround-rect", "surround:rect-not-union+margin%s" % ("(pct)" if pct else ""), dict(case, element=c["id"]),
                                      observed=repr(got), expected={k: repr(v) for k, v in cands.items()},
                                      what="surround rect is not the union of the listed boxes grown by the margin")
                else:
                    pts = boundary_points(c["shape"], el)  # noqa (forces attribute parse)
                    sb = geom.out_box(el)
                    ok = False
                    for cb in cands.values():
                        x1, y1, x2, y2 = fbox(cb)
                        if all(contains_point_shape(c["shape"], sb, px, py) for px, py in ((x1, y1), (x2, y1), (x2, y2), (x1, y2))):
                            ok = True
                    if not ok:
                        acc.violation("surround-round", "surround:%s-leaves-corner-outside" % c["shape"], dict(case, element=c["id"]),
                                      observed=dict(attrs=el.attrs), expected={k: repr(v) for k, v in cands.items()},
                                      what="a corner of the (grown) union box lies outside the surrounding %s" % c["shape"])
            else:
                pts = boundary_points(c["shape"], el)
                for tid, tshape, tb in c["refs"]:
                    tbox = Box(*[geom.fr(v) for v in tb])
                    if tshape in ("rect", "box"):
                        tbox = grow(tbox, trbl, "larger", sign=-1)
                    bad = [p for p in pts if not contains_point_shape("circle" if tshape == "circle" else "ellipse" if tshape == "ellipse" else "rect", tbox, p[0], p[1])]
                    if bad:
                        acc.violation("inside", "inside:%s-in-%s-sticks-out" % (c["shape"], tshape), dict(case, element=c["id"]),
                                      observed=dict(attrs=el.attrs, outside_points=bad[:3]), expected="within %s %r (margin applied)" % (tshape, tbox),
                                      what="a point of the 'inside' element lies outside listed shape #%s" % tid)
                        break
        except (ValueError, TypeError) as e:
            acc.violation("geometry-unreadable", "containment:unresolved-geometry/%s" % c["mode"], dict(case, element=c["id"]), observed=dict(attrs=el.attrs, error=str(e)),
                          expected="numeric native geometry")


def run_shard(ctx):
    acc = ctx.acc
    rng = ctx.rng("cont")
    n = 9000 if ctx.quick() else 200000
    for j in range(n):
        if ctx.out_of_time():
            acc.notes.append("time budget reached after %d docs" % j)
            break
        case = make_case(rng)
        check_case(ctx, case)
        if j < 2:
            acc.sample(dict(input=case["input"].decode()))
