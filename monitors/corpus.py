"""Shared corpus, built at run time from /repo's current working tree:
examples/*.xml, raw-string literals in tests/integration_tests/*.rs that look like XML,
fenced xml/svgdx blocks in docs/ and README.md."""
import glob
import os
import re

from . import core

_cache = None


def load():
    global _cache
    if _cache is not None:
        return _cache
    docs = []
    seen = set()

    def add(kind, name, text):
        t = text.strip()
        if not t or "<" not in t:
            return
        if t in seen:
            return
        seen.add(t)
        docs.append((kind, name, text))

    for p in sorted(glob.glob(os.path.join(core.REPO, "examples", "*.xml"))):
        try:
            add("example", os.path.basename(p), open(p, encoding="utf-8").read())
        except Exception:
            pass
    raw = re.compile(r'r(#+)"(.*?)"\1', re.S)
    for p in sorted(glob.glob(os.path.join(core.REPO, "tests", "integration_tests", "*.rs"))):
        try:
            src = open(p, encoding="utf-8").read()
        except Exception:
            continue
        for i, m in enumerate(raw.finditer(src)):
            s = m.group(2)
            if s.lstrip().startswith("<"):
                add("test", "%s#%d" % (os.path.basename(p), i), s)
    fence = re.compile(r"```(xml|svgdx)[\w-]*\n(.*?)```", re.S)
    mds = sorted(glob.glob(os.path.join(core.REPO, "docs", "**", "*.md"), recursive=True))
    mds.append(os.path.join(core.REPO, "README.md"))
    for p in mds:
        try:
            src = open(p, encoding="utf-8").read()
        except Exception:
            continue
        for i, m in enumerate(fence.finditer(src)):
            add("doc", "%s#%d" % (os.path.basename(p), i), m.group(2))
    _cache = docs
    return docs


def texts():
    return [d[2] for d in load()]
