"""Reference evaluator for svgdx {{...}} expressions, over expression TREES (so precedence and associativity come
from the tree, not from a second parser), in emulated IEEE single precision.

Written from docs/mdbook/src/reference/expressions.md, the doc comments of the function list, and the statement of
property C14. Values: float (f32-rounded) | list of floats | Str."""
import math

from .f32 import f32, fstr, rem_euclid as f32_rem_euclid


class Str(str):
    pass


class Malformed(Exception):
    """the expression has no value (the transform must fail)"""


def is_num(v):
    return isinstance(v, float)


def flat(vals):
    out = []
    for v in vals:
        if isinstance(v, list):
            out.extend(flat(v))
        else:
            out.append(v)
    return out


def one(v):
    if isinstance(v, list):
        v = flat(v)
        if len(v) != 1:
            raise Malformed("expected one value")
        v = v[0]
    if not is_num(v):
        raise Malformed("expected a number")
    return v


def nums(args, n=None):
    a = flat(args)
    if any(not is_num(x) for x in a):
        raise Malformed("expected numbers")
    if n is not None and len(a) != n:
        raise Malformed("wrong arity")
    return a


def truth(x):
    return 1.0 if x else 0.0


def deg2rad(x):
    return f32(x * f32(math.pi / 180.0)) if False else f32(math.radians(x))


def rad2deg(x):
    return f32(math.degrees(x))


def _safe(fn, *a):
    try:
        return f32(fn(*a))
    except (ValueError, OverflowError, ZeroDivisionError):
        return None


def f_sqrt(x):
    if x != x or x < 0:
        return math.nan
    return f32(math.sqrt(x)) if not math.isinf(x) else x


def f_log(x):
    if x != x or x < 0:
        return math.nan
    if x == 0:
        return -math.inf
    if math.isinf(x):
        return math.inf
    return f32(math.log(x))


def f_exp(x):
    if x != x:
        return math.nan
    try:
        return f32(math.exp(x))
    except OverflowError:
        return math.inf


def f_pow(x, y):
    if x == 0 and y < 0 and not math.isinf(y):
        odd = float(y).is_integer() and int(y) % 2 == 1
        return math.copysign(math.inf, x) if odd else math.inf
    try:
        r = math.pow(x, y)
    except OverflowError:
        return math.inf if (x > 0 or float(y).is_integer() and int(y) % 2 == 0) else -math.inf
    except ValueError:
        return math.nan
    except ZeroDivisionError:
        return math.inf
    return f32(r)


def to_radians(x):
    """f32::to_radians: one single-precision multiplication by pi/180"""
    return f32(x * f32(math.pi / 180.0))


def to_degrees(x):
    return f32(x * f32(180.0 / math.pi))


def f_trig(fn, x):
    if x != x or math.isinf(x):
        return math.nan
    return f32(fn(to_radians(x)))


def f_atrig(fn, x):
    if x != x:
        return math.nan
    try:
        return to_degrees(f32(fn(x)))
    except ValueError:
        return math.nan


def total_key(x):
    # f32::total_cmp order: -NaN < -inf < ... < -0 < +0 < ... < +inf < +NaN ; Python NaN has no sign we can rely on: treat as +NaN
    if x != x:
        return (2, 0.0)
    if x == 0:
        return (1, -0.5 if math.copysign(1.0, x) < 0 else 0.5) if False else (0, math.copysign(0.0, x), 0 if math.copysign(1.0, x) < 0 else 1)
    return (0, x, 0)


class Ctx:
    def __init__(self, variables=None, rng=None):
        self.vars = variables or {}
        self.rng = rng
        self.div_by_zero = False     # set when a division by (signed) zero was evaluated: the result's sign depends on the sign of zero


FUNCS = {}


def func(name):
    def deco(f):
        FUNCS[name] = f
        return f
    return deco


@func("abs")
def _abs(c, a):
    return f32(abs(one(a)))


@func("ceil")
def _ceil(c, a):
    x = one(a)
    if x != x or math.isinf(x):
        return x
    r = float(math.ceil(x))
    return math.copysign(0.0, x) if r == 0 else f32(r)      # IEEE: ceil(-0.3) = -0.0


@func("floor")
def _floor(c, a):
    x = one(a)
    if x != x or math.isinf(x):
        return x
    r = float(math.floor(x))
    return math.copysign(0.0, x) if r == 0 else f32(r)


@func("fract")
def _fract(c, a):
    x = one(a)
    if x != x or math.isinf(x):
        return math.nan
    return f32(x - math.copysign(float(math.trunc(x)), x))


@func("sign")
def _sign(c, a):
    x = one(a)
    if x != x:
        return math.nan
    return 0.0 if x == 0 else (1.0 if x > 0 else -1.0)


@func("divmod")
def _divmod(c, a):
    x, n = nums(a, 2)
    rem = f32_rem_euclid(x, n)
    # div_euclid: q = trunc(x / n); if x % n < 0 { if n > 0 { q - 1 } else { q + 1 } }
    if n == 0 or x != x or n != n or math.isinf(x):
        q = f32(x / n) if n != 0 else (math.nan if x == 0 or x != x else math.copysign(math.inf, x) * math.copysign(1.0, n))
        if q == q and not math.isinf(q):
            q = float(math.trunc(q))
        return [q, rem]
    qq = f32(x / n) if not math.isinf(n) else x / n
    q = math.copysign(float(math.trunc(qq)), qq)
    if math.fmod(x, n) < 0:
        q = q - 1 if n > 0 else q + 1
    return [f32(q), rem]


@func("sqrt")
def _sqrt(c, a):
    return f_sqrt(one(a))


@func("log")
def _log(c, a):
    return f_log(one(a))


@func("exp")
def _exp(c, a):
    return f_exp(one(a))


@func("pow")
def _pow(c, a):
    x, y = nums(a, 2)
    return f_pow(x, y)


@func("sin")
def _sin(c, a):
    return f_trig(math.sin, one(a))


@func("cos")
def _cos(c, a):
    return f_trig(math.cos, one(a))


@func("tan")
def _tan(c, a):
    return f_trig(math.tan, one(a))


@func("asin")
def _asin(c, a):
    return f_atrig(math.asin, one(a))


@func("acos")
def _acos(c, a):
    return f_atrig(math.acos, one(a))


@func("atan")
def _atan(c, a):
    return f_atrig(math.atan, one(a))


@func("random")
def _random(c, a):
    if flat(a):
        pass   # arguments are ignored by the documentation's signature random(); not generated
    return f32(c.rng.random_f32())


@func("randint")
def _randint(c, a):
    lo, hi = nums(a, 2)
    lo, hi = int(lo), int(hi)
    if lo > hi:
        raise Malformed("randint min > max")
    return float(c.rng.randint(lo, hi))


@func("min")
def _min(c, a):
    v = nums(a)
    if not v:
        raise Malformed("min()")
    if any(x != x for x in v):
        c.div_by_zero = True     # (re-using the 'not judged' flag) min/max over NaN depends on the NaN's sign bit
        return math.nan
    return min(v, key=lambda x: (x, math.copysign(1.0, x)))     # total order: -0.0 < +0.0


@func("max")
def _max(c, a):
    v = nums(a)
    if not v:
        raise Malformed("max()")
    if any(x != x for x in v):
        c.div_by_zero = True     # (re-using the 'not judged' flag) min/max over NaN depends on the NaN's sign bit
        return math.nan
    return max(v, key=lambda x: (x, math.copysign(1.0, x)))


@func("sum")
def _sum(c, a):
    s = 0.0
    for x in nums(a):
        s = f32(s + x)
    return s


@func("product")
def _product(c, a):
    s = 1.0
    for x in nums(a):
        s = f32(s * x)
    return s


@func("mean")
def _mean(c, a):
    v = nums(a)
    if not v:
        raise Malformed("mean()")
    s = 0.0
    for x in v:
        s = f32(s + x)
    return f32(s / float(len(v)))


@func("clamp")
def _clamp(c, a):
    x, lo, hi = nums(a, 3)
    if lo != lo or hi != hi or lo > hi:
        raise Malformed("clamp bounds")
    if x != x:
        return x
    return min(max(x, lo), hi)


@func("mix")
def _mix(c, a):
    s, e, t = nums(a, 3)
    return f32(f32(s * f32(1.0 - t)) + f32(e * t))


def _pair_any(a):
    v = flat(a)
    if len(v) != 2:
        raise Malformed("expected two arguments")
    return v


@func("eq")
def _eq(c, a):
    x, y = _pair_any(a)
    return truth(type(x) is type(y) and x == y)


@func("ne")
def _ne(c, a):
    x, y = _pair_any(a)
    return truth(not (type(x) is type(y) and x == y))


@func("lt")
def _lt(c, a):
    x, y = nums(a, 2)
    return truth(x < y)


@func("le")
def _le(c, a):
    x, y = nums(a, 2)
    return truth(x <= y)


@func("gt")
def _gt(c, a):
    x, y = nums(a, 2)
    return truth(x > y)


@func("ge")
def _ge(c, a):
    x, y = nums(a, 2)
    return truth(x >= y)


@func("if")
def _if(c, a):
    v = flat(a)
    if len(v) != 3:
        raise Malformed("if arity")
    if not is_num(v[0]):
        raise Malformed("if cond")
    return v[1] if v[0] != 0 else v[2]


@func("not")
def _not(c, a):
    return truth(one(a) == 0)


@func("and")
def _and(c, a):
    x, y = nums(a, 2)
    return truth(x != 0 and y != 0)


@func("or")
def _or(c, a):
    x, y = nums(a, 2)
    return truth(x != 0 or y != 0)


@func("xor")
def _xor(c, a):
    x, y = nums(a, 2)
    return truth((x != 0) != (y != 0))


@func("swap")
def _swap(c, a):
    x, y = _pair_any(a)
    return [y, x]


@func("r2p")
def _r2p(c, a):
    x, y = nums(a, 2)
    return [f32(math.hypot(x, y)), to_degrees(f32(math.atan2(y, x)))]


@func("p2r")
def _p2r(c, a):
    r, th = nums(a, 2)
    if th != th or math.isinf(th):
        return [math.nan, math.nan]
    t = to_radians(th)
    return [f32(r * f32(math.cos(t))), f32(r * f32(math.sin(t)))]


@func("select")
def _select(c, a):
    v = flat(a)
    if len(v) < 2 or not is_num(v[0]):
        raise Malformed("select")
    n = v[0]
    idx = 0 if (n != n or n < 0) else (len(v) if math.isinf(n) else int(n))
    rest = v[1:]
    if idx >= len(rest):
        raise Malformed("select index out of range")
    return rest[idx]


@func("addv")
def _addv(c, a):
    v = nums(a)
    if len(v) % 2:
        raise Malformed("addv odd")
    h = len(v) // 2
    return [f32(v[i] + v[i + h]) for i in range(h)]


@func("subv")
def _subv(c, a):
    v = nums(a)
    if len(v) % 2:
        raise Malformed("subv odd")
    h = len(v) // 2
    return [f32(v[i] - v[i + h]) for i in range(h)]


@func("scalev")
def _scalev(c, a):
    v = nums(a)
    if len(v) < 2:
        raise Malformed("scalev")
    return [f32(v[0] * x) for x in v[1:]]


@func("head")
def _head(c, a):
    v = flat(a)
    return v[0] if v else []


@func("tail")
def _tail(c, a):
    v = flat(a)
    return v[1:] if len(v) >= 2 else []


@func("empty")
def _empty(c, a):
    return truth(len(flat(a)) == 0)


@func("count")
def _count(c, a):
    return float(len(flat(a)))


@func("in")
def _in(c, a):
    v = flat(a)
    if not v:
        raise Malformed("in()")
    return truth(any(type(x) is type(v[0]) and x == v[0] for x in v[1:]))


def _strs(a, n=None):
    v = flat(a)
    if any(not isinstance(x, Str) for x in v):
        raise Malformed("expected strings")
    if n is not None and len(v) != n:
        raise Malformed("string arity")
    return v


@func("split")
def _split(c, a):
    sep, s = _strs(a, 2)
    if sep == "":
        # Rust str::split("") yields "", each char, ""
        return [Str("")] + [Str(ch) for ch in s] + [Str("")]
    return [Str(x) for x in s.split(sep)]


@func("splitw")
def _splitw(c, a):
    (s,) = _strs(a, 1)
    return [Str(x) for x in s.split()]


@func("trim")
def _trim(c, a):
    (s,) = _strs(a, 1)
    return Str(s.strip())


@func("join")
def _join(c, a):
    v = _strs(a)
    if not v:
        raise Malformed("join()")
    return Str(v[0].join(v[1:]))


@func("_")
def _text(c, a):
    (s,) = _strs(a, 1)
    return ("TEXT", s)


# --------------------------------------------------------------------------------------------------
# trees:  ("num", text) | ("var", name) | ("str", s) | ("neg", t) | ("bin", op, l, r) | ("cmp", op, l, r)
#         | ("log", op, l, r) | ("call", name, [args]) | ("list", [items]) | ("paren", t)

def eval_tree(t, c):
    k = t[0]
    if k == "num":
        from .f32 import parse_f32
        return parse_f32(t[1])
    if k == "str":
        return Str(t[1])
    if k == "var":
        if t[1] not in c.vars:
            raise Malformed("undefined variable")
        return c.vars[t[1]]
    if k == "paren":
        return eval_tree(t[1], c)
    if k == "neg":
        return f32(-one(eval_tree(t[1], c)))
    if k == "bin":
        l = one(eval_tree(t[2], c))
        r = one(eval_tree(t[3], c))
        op = t[1]
        if op == "+":
            return f32(l + r)
        if op == "-":
            return f32(l - r)
        if op == "*":
            return f32(l * r)
        if op == "/":
            if r == 0:
                c.div_by_zero = True
                if l == 0 or l != l:
                    return math.nan
                return math.copysign(math.inf, l) * math.copysign(1.0, r)
            return f32(l / r)
        if op == "%":
            return f32_rem_euclid(l, r)
    if k == "cmp":
        l = one(eval_tree(t[2], c))
        r = one(eval_tree(t[3], c))
        return truth({"eq": l == r, "ne": l != r, "lt": l < r, "le": l <= r, "gt": l > r, "ge": l >= r}[t[1]])
    if k == "log":
        l = one(eval_tree(t[2], c))
        r = one(eval_tree(t[3], c))
        a, b = l != 0, r != 0
        return truth({"and": a and b, "or": a or b, "xor": a != b}[t[1]])
    if k == "call":
        if t[1] not in FUNCS:
            raise Malformed("unknown function")
        args = [eval_tree(x, c) for x in t[2]]
        return FUNCS[t[1]](c, args)
    if k == "list":
        return flat([eval_tree(x, c) for x in t[1]])
    raise ValueError(k)


def show(v):
    """svgdx's rendering of a value in an attribute"""
    if isinstance(v, tuple) and v[0] == "TEXT":
        return v[1]
    if isinstance(v, Str):
        return "'" + v.replace("\\", "\\\\").replace("\n", "\\n").replace("'", "\\'") + "'"
    if isinstance(v, list):
        return ", ".join(show(x) for x in flat(v))
    if isinstance(v, str):
        return v            # "NAN-ORDER" sentinel: result depends on NaN ordering, not judged
    return fstr(v)


# --------------------------------------------------------------------------------------------------
# rendering with the minimum parentheses the documented precedence needs (+ random redundant ones / whitespace)
# precedence levels: 0 list  1 logical  2 comparison  3 additive  4 multiplicative  5 unary/primary

def prec(t):
    return {"list": 0, "log": 1, "cmp": 2}.get(t[0], 3 if t[0] == "bin" and t[1] in "+-" else 4 if t[0] == "bin" else 5)


def render(t, rng, parent=0, right=False):
    k = t[0]
    sp = lambda: rng.choice(["", " ", " ", "  "])     # noqa: E731
    if k == "num":
        s = t[1]
    elif k == "str":
        s = "'" + t[1].replace("\\", "\\\\").replace("'", "\\'") + "'"
    elif k == "var":
        s = ("${%s}" % t[1]) if rng.random() < 0.3 else "$" + t[1]
    elif k == "paren":
        s = "(" + sp() + render(t[1], rng, 0) + sp() + ")"
    elif k == "neg":
        inner = render(t[1], rng, 5)
        s = "-" + inner
    elif k == "bin":
        p = prec(t)
        s = render(t[2], rng, p, False) + sp() + t[1] + sp() + render(t[3], rng, p, True)
    elif k == "cmp":
        s = render(t[2], rng, 3, False) + " " + t[1] + " " + render(t[3], rng, 3, False)
    elif k == "log":
        s = render(t[2], rng, 1, False) + " " + t[1] + " " + render(t[3], rng, 1, True)
    elif k == "call":
        s = t[1] + "(" + (sp() + ("," + sp()).join(render(a, rng, 1) for a in t[2]) + sp() if t[2] else "") + ")"
    elif k == "list":
        s = ("," + sp()).join(render(a, rng, 1) for a in t[1])
    else:
        raise ValueError(k)
    p = prec(t)
    need = False
    if k in ("bin", "cmp", "log", "list"):
        if p < parent:
            need = True
        elif p == parent and right and k in ("bin", "log"):
            need = True          # left-associative: a right operand at the same level needs parentheses
        elif k == "cmp" and parent == 2:
            need = True
        elif k == "cmp" and parent == 3:
            need = True
    if k == "neg" and parent == 5:
        need = False             # unary minus chains are fine: --x
    if k == "num" and t[1].startswith("-") and parent >= 5:
        need = False
    if need or (k not in ("num", "var", "str", "list") and rng.random() < 0.08):
        s = "(" + sp() + s + sp() + ")"
    return s
