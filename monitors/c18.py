"""C18 Reuse instantiates templates as if written out by hand.

Translation validation: a document using <reuse> (templates: shape, circle, group, symbol, nested reuse; parameterised
in geometry, text and class; in <specs> before or after use, or constant templates inline / in <defs>) against its
mechanically inlined twin; the two output trees must be equal (class lists compared as sets, translate() numerically)."""
import re

from . import core, xmlcanon

LEVEL = "translation_validation"
TECHNIQUE = "translation validation: document with <reuse> vs mechanically inlined twin, canonical output trees compared"
LEVEL_TEXT = ("Held on the program pairs observed: ~2e4 documents with 1-6 instantiations (different bindings, ids, classes, styles, x/y) of "
              "shape / circle / group / symbol / nested templates equalled their inlined twins element for element; <specs> content never "
              "appeared in the output. Translation validation: the property is 'instantiation = manual substitution'.")
LEVEL_NOTE = ("Trusted: the inliner. Binding names never collide with attributes the target carries (what a same-named attribute does is "
              "not stated) except id/class/style/x/y whose treatment is stated; templates are drawn at the origin; class order is not "
              "compared; parameterised templates live in <specs> (free variables cannot be evaluated elsewhere).")
BUDGET_S = {"quick": 120, "thorough": 1200}
FLOOR = {"quick": 200, "thorough": 5000}
RULE = ("program pairs (P, inline(P)); non-trivial = >= 1 bound variable or >= 2 instances; distinct by hash(P)")
ASSUMPTIONS = ["integer geometry; binding values are short tokens"]


class Gen18:
    def __init__(self, rng):
        self.r = rng
        self.templates = {}     # id -> (kind, placement)
        self.order = []
        self.alias_of = None
        self.tdefaults = {}      # template id -> default attributes of a group / symbol template (variables for its content)

    def make_templates(self):
        r = self.r
        n = r.randint(1, 3)
        for i in range(n):
            kind = r.choice(["rect", "circle", "group", "symbol", "nested"])
            if kind == "nested" and not any(k == "rect" for k, _ in self.templates.values()):
                kind = "rect"
            self.templates["t%d" % i] = (kind, "specs")
            if kind in ("group", "symbol") and r.random() < 0.4:
                pool = {"w": r.randint(1, 9), "h": r.randint(1, 9), "lab": "D%d" % i, "cls": "dcls"}
                self.tdefaults["t%d" % i] = {k: pool[k] for k in r.sample(sorted(pool), r.randint(1, 3))}
        groups = [t for t, (k, _) in self.templates.items() if k in ("group", "rect", "circle")]
        if groups and r.random() < 0.5:
            # a <reuse id=..> specialising a group template, itself used as a reuse target (its bindings are computed from
            # a variable only bound by the final instantiation)
            self.alias_of = r.choice(groups)
            self.templates["al0"] = ("alias", "specs")
        if r.random() < 0.4:
            self.templates["c0"] = ("const-rect", r.choice(["inline", "defs"]))
        if r.random() < 0.3:
            self.templates["c1"] = ("const-group", r.choice(["inline", "defs"]))

    def dattrs(self, tid, env=None):
        """the template's own default attributes (with the instance's values when env is given)"""
        d = self.tdefaults.get(tid, {})
        return "".join(' %s="%s"' % (k, (env or d)[k]) for k in sorted(d))

    def template_xml(self, tid):
        kind, _ = self.templates[tid]
        if kind == "rect":
            return '<rect id="%s" wh="$w $h" text="$lab" class="$cls base"/>' % tid
        if kind == "circle":
            return '<circle id="%s" r="$w" class="k"/>' % tid
        if kind == "group":
            return ('<g id="%s"%s><rect wh="$w 2"/><text xy="^|v 1" text="$lab"/><circle cxy="{{$w / 2}} -3" r="1" class="$cls"/></g>') % (tid, self.dattrs(tid))
        if kind == "symbol":
            return '<symbol id="%s"%s><rect wh="$w $h" class="$cls"/></symbol>' % (tid, self.dattrs(tid))
        if kind == "nested":
            inner = [t for t, (k, _) in self.templates.items() if k == "rect"][0]
            return '<g id="%s"><reuse href="#%s" w="{{$w * 2}}" h="1" lab="in-$lab" cls="n"/><rect xy="0 5" wh="$w 1"/></g>' % (tid, inner)
        if kind == "alias":
            return '<reuse id="%s" href="#%s" w="{{$n + 1}}" h="$n" lab="A$n" cls="al" class="via"/>' % (tid, self.alias_of)
        if kind == "const-rect":
            return '<rect id="%s" wh="4 3" class="cst"/>' % tid
        if kind == "const-group":
            return '<g id="%s"><rect wh="2"/><circle cxy="5 1" r="1"/></g>' % tid
        raise ValueError(kind)

    def inline(self, tid, env, rid, rclasses, rstyle, x, y):
        """the instance written out by hand"""
        kind, _ = self.templates[tid]
        cls_extra = " ".join(rclasses + [tid])
        ida = (' id="%s"' % rid) if rid else ""
        sty = (' style="%s"' % rstyle) if rstyle else ""
        w, h, lab, cls = env.get("w"), env.get("h"), env.get("lab"), env.get("cls")

        def pos(px, py):
            s = ""
            if px is not None:
                s += ' x="%d"' % px
            if py is not None:
                s += ' y="%d"' % py
            return s

        def tr(px, py):
            # a transform written on the <reuse> itself stays first; the placement is a translation appended to it
            own = getattr(self, "reuse_transform", None)
            px, py = px or 0, py or 0
            parts = ([own] if own else []) + (["translate(%d, %d)" % (px, py)] if (px, py) != (0, 0) else [])
            return (' transform="%s"' % " ".join(parts)) if parts else ""
        if kind == "rect":
            return '<rect%s%s width="%d" height="%d" text="%s" class="%s base %s"%s/>' % (ida, pos(x, y), w, h, lab, cls, cls_extra, sty)
        if kind == "circle":
            # the top-left of the circle's bounding box goes to (x, y)
            a = ""
            if x is not None:
                a += ' cx="%d"' % (x + w)
            if y is not None:
                a += ' cy="%d"' % (y + w)
            return '<circle%s%s r="%d" class="k %s"%s/>' % (ida, a, w, cls_extra, sty)
        if kind == "group":
            body = '<rect wh="%d 2"/><text xy="^|v 1" text="%s"/><circle cxy="%s -3" r="1" class="%s"/>' % (w, lab, fmt_half(w), cls)
            return '<g%s%s class="%s"%s%s>%s</g>' % (ida, self.dattrs(tid, env), cls_extra, sty, tr(x, y), body)
        if kind == "symbol":
            return '<g%s%s class="%s"%s%s><rect wh="%d %d" class="%s"/></g>' % (ida, self.dattrs(tid, env), cls_extra, sty, tr(x, y), w, h, cls)
        if kind == "alias":
            n = env["n"]
            return self.inline(self.alias_of, dict(w=n + 1, h=n, lab="A%d" % n, cls="al"), rid, ["via"] + rclasses + [tid], rstyle, x, y)
        if kind == "nested":
            inner = [t for t, (k, _) in self.templates.items() if k == "rect"][0]
            inner_inst = self.inline(inner, dict(w=w * 2, h=1, lab="in-" + lab, cls="n"), None, [], None, None, None)
            return '<g%s class="%s"%s%s>%s<rect xy="0 5" wh="%d 1"/></g>' % (ida, cls_extra, sty, tr(x, y), inner_inst, w)
        if kind == "const-rect":
            return '<rect%s%s width="4" height="3" class="cst %s"%s/>' % (ida, pos(x, y), cls_extra, sty)
        if kind == "const-group":
            return '<g%s class="%s"%s%s><rect wh="2"/><circle cxy="5 1" r="1"/></g>' % (ida, cls_extra, sty, tr(x, y))
        raise ValueError(kind)

    def build(self):
        r = self.r
        self.make_templates()
        scheme = r.choice(["plain", "plain", "underscore", "mixed", "geometry"])
        uses_p, uses_u = [], []
        nbound = 0
        # global variables with the template parameters' names: the template can then be evaluated where it stands, and an
        # instance must still see its own bindings (and fall back to the globals for what it does not bind)
        glob = {}
        if r.random() < 0.5:
            glob = dict(w=r.randint(1, 9), h=r.randint(1, 9), lab="G", cls="gcls")
            for t in list(self.templates):
                k, pl = self.templates[t]
                if not k.startswith("const") and k not in ("symbol", "nested", "alias") and r.random() < 0.4:
                    self.templates[t] = (k, "inline")
        for k in range(r.randint(1, 6)):
            tid = r.choice(list(self.templates))
            kind, _ = self.templates[tid]
            env = dict(w=r.randint(1, 9), h=r.randint(1, 9), lab=r.choice(["A", "b2", "x-y", "L%d" % k]), cls=r.choice(["red", "c%d" % k, "zz"]))
            rid = ("u%d" % k) if r.random() < 0.6 else None
            rcls = r.choice([[], [], ["big"], ["big", "hot"]])
            rsty = r.choice([None, None, "fill: red", "stroke: blue; opacity: 0.5"])
            x = r.choice([None, 0, 3, 10, -4, 25]) if r.random() < 0.8 else None
            y = r.choice([0, 2, 7, -6, 30]) if x is not None else None
            attrs = ' href="#%s"' % tid
            if rid:
                attrs += ' id="%s"' % rid
            if rcls:
                attrs += ' class="%s"' % " ".join(rcls)
            if rsty:
                attrs += ' style="%s"' % rsty
            if x is not None:
                attrs += ' x="%d" y="%d"' % (x, y)
            self.reuse_transform = None
            if kind in ("group", "symbol", "nested", "const-group") and r.random() < 0.3:
                # group instance with a transform of its own as well as (possibly) an offset, for templates in <specs>, in <defs>
                # and inline alike
                self.reuse_transform = r.choice(["rotate(45)", "scale(2)", "rotate(30 1 2)", "scale(1.5, 0.5)", "skewX(10)"])
                attrs += ' transform="%s"' % self.reuse_transform
            if kind == "alias":
                env["n"] = r.randint(1, 8)
                attrs += ' n="%d"' % env["n"]
                nbound += 1
            elif not kind.startswith("const"):
                dflt = self.tdefaults.get(tid, {})
                for nm in ("w", "h", "lab", "cls"):
                    # (a template default named width / height is always overridden by the use: svgdx treats such attributes
                    # of the template element itself as geometry, what they do when left to apply is not stated)
                    if nm in dflt and r.random() < 0.4 and not (scheme == "geometry" and nm in ("w", "h")):
                        env[nm] = dflt[nm]          # not bound by this instance: the template's own default applies (innermost)
                    elif glob and nm not in dflt and r.random() < 0.3:
                        env[nm] = glob[nm]          # not bound by this instance: the global value applies
                    else:
                        attrs += (' %s="%d"' if nm in ("w", "h") else ' %s="%s"') % (nm, env[nm])
                nbound += 1
            uses_p.append("  <reuse%s/>" % attrs)
            uses_u.append("  " + self.inline(tid, env, rid, rcls, rsty, x, y))
            self.reuse_transform = None
        # an instance made inside <specs> (a partial application given an id): not rendered, yet it stands for the written-out
        # element, so elements outside can take position and size from it
        spec_inst_p = spec_inst_u = None
        shapes_in_specs = [t for t, (k, p) in self.templates.items() if k in ("rect", "circle") and p == "specs"]
        if shapes_in_specs and r.random() < 0.35:
            t = r.choice(shapes_in_specs)
            env2 = dict(w=r.randint(1, 9), h=r.randint(1, 9), lab="S", cls="sp")
            sx = r.choice([None, 0, 4, -3, 12])
            sy = r.choice([1, 6, -2]) if sx is not None else None
            spec_inst_p = '<reuse id="sp0" href="#%s" w="%d" h="%d" lab="S" cls="sp"%s/>' % (t, env2["w"], env2["h"], (' x="%d" y="%d"' % (sx, sy)) if sx is not None else "")
            spec_inst_u = self.inline(t, env2, "sp0", [], None, sx, sy)
            ref = r.choice(['<rect id="ref0" xy="#sp0|h 2" wh="#sp0"/>', '<circle id="ref0" cxy="#sp0@br" r="{{#sp0~w}}"/>',
                            '<rect id="ref0" xy="#sp0@bl 1 1" wh="{{#sp0~h}} 2"/>', '<line id="ref0" xy1="#sp0@tl" xy2="#sp0@br"/>'])
            k_at = r.randint(0, len(uses_p))
            uses_p.insert(k_at, "  " + ref)
            uses_u.insert(k_at, "  " + ref)
        specs = "  <specs>\n" + "\n".join(["    " + self.template_xml(t) for t, (k, p) in self.templates.items() if p == "specs"]
                                          + (["    " + spec_inst_p] if spec_inst_p else [])) + "\n  </specs>"
        inline_t = ["  " + self.template_xml(t) for t, (k, p) in self.templates.items() if p == "inline"]
        defs_t = ["  <defs>" + self.template_xml(t) + "</defs>" for t, (k, p) in self.templates.items() if p == "defs"]
        specs_first = r.random() < 0.6
        pre = inline_t + defs_t
        if glob:
            pre = ['  <var w="%d" h="%d" lab="%s" cls="%s"/>' % (glob["w"], glob["h"], glob["lab"], glob["cls"])] + pre
        head_p = ([specs] if specs_first else []) + pre
        tail_p = [] if specs_first else [specs]
        # specs content must not be rendered: the twin simply has no <specs>
        P = "<svg>\n" + "\n".join(head_p + uses_p + tail_p) + "\n</svg>"
        specs_u = ["  <specs>\n    " + spec_inst_u + "\n  </specs>"] if spec_inst_u else []
        U = "<svg>\n" + "\n".join((specs_u if specs_first else []) + pre + uses_u + ([] if specs_first else specs_u)) + "\n</svg>"
        # binding names: any name the documentation allows (letters, digits, underscore, not starting with a digit)
        if scheme != "plain":
            ren = {"underscore": {"w": "_w", "h": "_h", "lab": "_lab", "cls": "_cls", "n": "_n"},
                   "mixed": {"w": "W_1", "h": "h2_", "lab": "__l", "cls": "Cls9", "n": "_"},
                   # names that are also geometry attributes: on a <reuse> they are plain variables
                   "geometry": {"w": "width", "h": "height", "lab": "lab", "cls": "cls", "n": "n"}}[scheme]

            def rename(text):
                text = re.sub(r"(?<=\s)(w|h|lab|cls|n)=", lambda m: ren[m.group(1)] + "=", text)
                text = re.sub(r"\$\{(w|h|lab|cls|n)\}", lambda m: "${" + ren[m.group(1)] + "}", text)
                return re.sub(r"\$(w|h|lab|cls|n)\b", lambda m: "$" + ren[m.group(1)], text)
            P, U = rename(P), rename(U)
        feats = sorted({"names." + scheme} | set("template." + k for k, _ in self.templates.values()) | {"specs." + ("first" if specs_first else "last")} | ({"globals"} if glob else set())
                       | set("placement." + pl for _, pl in self.templates.values()) | ({"instance-in-specs"} if spec_inst_p else set()))
        return P, U, nbound, len(uses_p), feats


def fmt_half(w):
    v = w / 2.0
    return str(int(v)) if v == int(v) else ("%g" % v)


def canon(out):
    evs = xmlcanon.parse_events(out, fragment=True)
    res = []
    for ev in evs:
        if ev[0] == "chars":
            if ev[1].strip():
                res.append(("chars", ev[1].strip()))
        elif ev[0] == "comment":
            continue
        elif ev[0] == "start":
            attrs = dict(ev[2])
            if ev[1] == "g":
                # width / height mean nothing on a <g>; whether an instance keeps such a (variable) attribute is not stated
                attrs.pop("width", None)
                attrs.pop("height", None)
            if "class" in attrs:
                attrs["class"] = " ".join(sorted(set(attrs["class"].split())))
            if "transform" in attrs:
                attrs["transform"] = re.sub(r"translate\(\s*([-\d.]+)[,\s]+([-\d.]+)\s*\)", lambda m: "translate(%g,%g)" % (float(m.group(1)), float(m.group(2))), attrs["transform"])
            res.append(("start", ev[1], attrs))
        else:
            res.append(ev)
    return res


def check_case(ctx, case):
    acc = ctx.acc
    acc.cases += 1
    if case.get("nontrivial"):
        acc.nontriv(core.chash(case["program"]), case.get("feats", []))
    r1 = ctx.run(case["program"], dict(auto=False))
    r2 = ctx.run(case["inlined"], dict(auto=False))
    if r1.crashed or r2.crashed:
        acc.count("crashed(C01's business)")
        return
    if not r2.ok:
        acc.inconc("inlined-twin-rejected")
        acc.notes.append("twin rejected: %s" % core.trunc(r2.err, 200))
        return
    if not r1.ok:
        acc.violation("rejected", "rejected:" + "+".join(case.get("feats", [])[:2]), case, observed=core.trunc(r1.err, 300), expected="Ok (the inlined twin is accepted)")
        return
    a, b = canon(r1.out), canon(r2.out)
    if a != b:
        d = xmlcanon.first_diff(a, b)
        what = "?"
        if d[1] and d[2] and d[1][0] == d[2][0] == "start":
            if d[1][1] != d[2][1]:
                what = "element-name"
            else:
                ka = {k for k in set(d[1][2]) | set(d[2][2]) if d[1][2].get(k) != d[2][2].get(k)}
                what = "attr(%s)/%s" % (",".join(sorted(ka)), d[1][1])
        elif d[1] and d[2]:
            what = "%s-vs-%s" % (d[1][0], d[2][0])
        acc.violation("tree-differs", "tree-differs:%s" % what, case, observed=dict(index=d[0], reuse=d[1], inlined=d[2]), expected="identical trees",
                      what="instance differs from the hand-written equivalent: %r vs %r" % (d[1], d[2]))
    if b"<specs" in r1.out:
        acc.violation("specs-rendered", "specs-rendered", case, observed=core.trunc(r1.out, 300), expected="no <specs> in the output")


def run_shard(ctx):
    acc = ctx.acc
    rng = ctx.rng("reuse")
    n = 10000 if ctx.quick() else 200000
    for j in range(n):
        if ctx.out_of_time():
            acc.notes.append("time budget reached after %d programs" % j)
            break
        P, U, nbound, ninst, feats = Gen18(rng).build()
        case = dict(program=P.encode(), inlined=U.encode(), nontrivial=(nbound >= 1 or ninst >= 2), feats=feats)
        check_case(ctx, case)
        if j < 2:
            acc.sample(dict(program=P, inlined=U))
