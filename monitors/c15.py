"""C15 Variable scoping is lexical and unaffected by evaluation order.

Random programs: nested g / reuse / loop / for / if, attribute locals, <var> (incl. parallel swaps), undefined names,
forward references placed inside groups, reuse templates and loop bodies; probes read variables at every program point.
Oracle: (1) a lexical-scope reference interpreter, (2) the forward<->backward twin must give the same probe values,
(3) end-of-transform invariant from the context probe hook (scope stack at base, element stack empty, depth 0)."""
import re

from . import core, geom

LEVEL = "exploration"
TECHNIQUE = "reference interpreter (lexical scoping) as runtime oracle + metamorphic forward/backward twin + end-state invariant read through the context probe hook"
LEVEL_TEXT = ("Held on the executions observed: ~2e4 generated programs (nesting to depth 4, ~15 probes each) with and without forward "
              "references: every probe read the lexically visible value, the twin with the referenced element moved first gave identical "
              "probe values, and every transform ended with scope stack <= 1, empty element stack, depth 0, in_specs false.")
LEVEL_NOTE = ("Trusted: the scope rules as documented (scopes: g, reuse; <var> writes the innermost scope; loop/for/if bodies are not scopes; "
              "substitution is textual and single-pass; undefined names stay verbatim). Variable values are short tokens / small integers.")
BUDGET_S = {"quick": 120, "thorough": 1200}
FLOOR = {"quick": 200, "thorough": 5000}
RULE = ("random programs; non-trivial = >= 1 probe inside or after a scope that shadows a name; distinct by hash(program text)")
ASSUMPTIONS = ["loop / for / if bodies are not scopes (documented: variables are global apart from attribute locals)"]

NAMES = ["a", "b", "c"]
# (the probe also reads two names that are only ever bound through the 'uni' family below)
UNI = ["gr\u00f6\u00dfe", "gr"]


class Prog:
    """program generator + reference interpreter; the program is kept as nested python lists"""

    def __init__(self, rng, fwd=True):
        self.r = rng
        self.k = 0
        self.fwd = fwd
        self.templates = []
        self.tdefaults = []       # per template: default attributes of the template group (overridden by same-named reuse attributes)
        self.shadow = False
        self.uses_fwd = False

    def token(self):
        r = self.r
        return r.choice(["A", "B", "X7", "q", "10", "3", "zz", "k9"]) + r.choice(["", "", "1", "x"])

    def value_expr(self):
        """('lit', s) | ('ref', name) | ('cat', name, s) | ('inc', name)"""
        r = self.r
        k = r.random()
        if k < 0.06:
            return ("lit", "")          # an empty value is a value: it shadows / defines like any other
        if k < 0.5:
            return ("lit", self.token())
        if k < 0.75:
            return ("ref", r.choice(NAMES))
        if k < 0.9:
            return ("cat", r.choice(NAMES), r.choice(["x", "_", "9"]))
        return ("inc", r.choice(NAMES))

    def block(self, depth, n):
        r = self.r
        out = []
        for _ in range(n):
            k = r.random()
            self.k += 1
            if k < 0.3 or depth >= 4:
                out.append(("probe", self.k))
            elif k < 0.5:
                names = r.sample(NAMES, r.choice([1, 1, 2, 3]))
                asg = {nm: self.value_expr() for nm in names}
                if len(names) >= 2 and r.random() < 0.4:
                    asg = {names[0]: ("ref", names[1]), names[1]: ("ref", names[0])}    # parallel swap
                out.append(("var", asg))
            elif k < 0.65:
                attrs = {nm: self.value_expr() for nm in r.sample(NAMES, r.choice([0, 1, 1, 2]))}
                # one in five is an empty, self-closing group (a marker / anchor): its attributes open a scope that has no
                # descendants at all, so nothing after it may see them
                out.append(("g", attrs, [] if r.random() < 0.2 else self.block(depth + 1, r.randint(1, 4))))
                if attrs:
                    self.shadow = True
            elif k < 0.73:
                out.append(("loop", r.randint(0, 3), r.choice([None, "i"]), self.block(depth + 1, r.randint(1, 3))))
            elif k < 0.79:
                out.append(("for", [self.token() for _ in range(r.randint(1, 3))], self.block(depth + 1, r.randint(1, 2))))
            elif k < 0.85:
                out.append(("if", r.randint(0, 1), self.block(depth + 1, r.randint(1, 2))))
            elif k < 0.93:
                tid = len(self.templates)
                body = self.block(depth + 2, r.randint(1, 3))
                self.templates.append(body)
                self.tdefaults.append({nm: self.token() for nm in r.sample(NAMES, r.choice([0, 0, 1, 2]))})
                attrs = {nm: self.value_expr() for nm in r.sample(NAMES, r.choice([0, 1, 2]))}
                out.append(("reuse", tid, attrs))
                if attrs:
                    self.shadow = True
            elif self.fwd and depth >= 1:
                out.append(("fwd", self.k))
                self.uses_fwd = True
            else:
                out.append(("probe", self.k))
        return out

    def block_noassign(self, depth, n, need_fwd=True):
        """a block without any assignment (no <var>, loop-var, <for>): re-evaluating it cannot reorder side effects"""
        r = self.r
        out = []
        placed = not need_fwd
        for j in range(n):
            self.k += 1
            k = r.random()
            if not placed and (j == n - 1 or k < 0.25):
                out.append(("fwd", self.k))
                placed = True
                self.uses_fwd = True
            elif k < 0.5 or depth >= 4:
                out.append(("probe", self.k))
            elif k < 0.75:
                attrs = {nm: self.value_expr() for nm in r.sample(NAMES, r.choice([1, 1, 2]))}
                self.shadow = True
                out.append(("g", attrs, self.block_noassign(depth + 1, r.randint(1, 3), need_fwd=(not placed and r.random() < 0.5))))
                placed = placed or self.uses_fwd
            elif k < 0.85:
                out.append(("if", 1, self.block_noassign(depth + 1, r.randint(1, 2), need_fwd=False)))
            elif k < 0.93:
                out.append(("loop", r.randint(1, 2), None, self.block_noassign(depth + 1, r.randint(1, 2), need_fwd=False)))
            else:
                tid = len(self.templates)
                self.templates.append(self.block_noassign(depth + 2, r.randint(1, 2), need_fwd=False))
                self.tdefaults.append({nm: self.token() for nm in r.sample(NAMES, r.choice([0, 0, 1, 2]))})
                out.append(("reuse", tid, {nm: self.value_expr() for nm in r.sample(NAMES, r.choice([1, 2]))}))
                self.shadow = True
        if not placed:
            self.k += 1
            out.append(("fwd", self.k))
            self.uses_fwd = True
        return out

    # ---------------------------------------------------------------- rendering
    def expr_text(self, e):
        if e[0] == "lit":
            return e[1]
        if e[0] == "ref":
            return "$" + e[1]
        if e[0] == "cat":
            return "${%s}%s" % (e[1], e[2])
        return "{{$%s + 1}}" % e[1]

    def attrs_text(self, attrs):
        return "".join(' %s="%s"' % (k, self.expr_text(v)) for k, v in attrs.items())

    def render(self, block, ind="  "):
        lines = []
        for node in block:
            t = node[0]
            if t == "probe":
                lines.append('%s<text xy="0 %d" text="[P%d:$a|$b|$c|$i|$q]"/>' % (ind, node[1], node[1]))
            elif t == "var":
                lines.append("%s<var%s/>" % (ind, self.attrs_text(node[1])))
            elif t == "g" and not node[2]:
                lines.append("%s<g%s/>" % (ind, self.attrs_text(node[1])))
            elif t == "g":
                lines.append("%s<g%s>" % (ind, self.attrs_text(node[1])))
                lines += self.render(node[2], ind + "  ")
                lines.append("%s</g>" % ind)
            elif t == "loop":
                lines.append('%s<loop count="%d"%s>' % (ind, node[1], ' loop-var="i"' if node[2] else ""))
                lines += self.render(node[3], ind + "  ")
                lines.append("%s</loop>" % ind)
            elif t == "for":
                lines.append('%s<for var="q" data="%s">' % (ind, ", ".join("'%s'" % x for x in node[1])))
                lines += self.render(node[2], ind + "  ")
                lines.append("%s</for>" % ind)
            elif t == "if":
                lines.append('%s<if test="%d">' % (ind, node[1]))
                lines += self.render(node[2], ind + "  ")
                lines.append("%s</if>" % ind)
            elif t == "reuse":
                lines.append('%s<reuse href="#t%d"%s/>' % (ind, node[1], self.attrs_text(node[2])))
            elif t == "fwd":
                lines.append('%s<rect xy="#later|h %d" wh="1"/>' % (ind, node[1] % 5))
        return lines

    def document(self, block, later_first):
        later = '  <rect id="later" xy="3 4" wh="2"/>'
        specs = ["  <specs>"]
        for i, body in enumerate(self.templates):
            specs.append('    <g id="t%d"%s>' % (i, "".join(' %s="%s"' % kv for kv in self.tdefaults[i].items())))
            specs += self.render(body, "      ")
            specs.append("    </g>")
        specs.append("  </specs>")
        lines = ["<svg>"]
        if later_first:
            lines.append(later)
        lines += specs if self.templates else []
        lines += self.render(block)
        if not later_first:
            lines.append(later)
        lines.append("</svg>")
        return "\n".join(lines)

    # ---------------------------------------------------------------- reference interpreter
    def interpret(self, block):
        out = []
        scopes = [{}]

        def lookup(n):
            for s in reversed(scopes):
                if n in s:
                    return s[n]
            return None

        def subst(text):
            def rep(m):
                n = m.group(1) or m.group(2)
                v = lookup(n)
                return v if v is not None else m.group(0)
            return re.sub(r"\$\{(\w+)\}|\$(\w+)", rep, text)

        def ev(e):
            if e[0] == "lit":
                return e[1]
            # A value that stores a verbatim '$name' (because name is undefined at that point) would be substituted again by
            # later evaluation passes once name becomes defined; the statement does not cover that, so such programs are rejected.
            if e[0] == "ref":
                v = lookup(e[1])
                if v is None:
                    raise ValueError("reference to an undefined name inside a value")
                return v
            if e[0] == "cat":
                v = lookup(e[1])
                if v is None:
                    raise ValueError("reference to an undefined name inside a value")
                return v + e[2]
            v = lookup(e[1])
            if v is None or not re.fullmatch(r"-?\d+", v):
                raise ValueError("inc of non-number")
            if abs(int(v)) >= 1 << 23:
                # beyond the integers svgdx's single-precision arithmetic represents exactly (C14's business): not generated
                raise ValueError("inc of a number too large for exact f32 arithmetic")
            return str(int(v) + 1)

        def run(b):
            for node in b:
                t = node[0]
                if t == "probe":
                    out.append(subst("[P%d:$a|$b|$c|$i|$q]" % node[1]))
                elif t == "var":
                    vals = {k: ev(v) for k, v in node[1].items()}
                    scopes[-1].update(vals)
                elif t == "g":
                    vals = {k: ev(v) for k, v in node[1].items()}
                    scopes.append(vals)
                    run(node[2])
                    scopes.pop()
                elif t == "loop":
                    for it in range(node[1]):
                        if node[2]:
                            scopes[-1]["i"] = str(it)
                        run(node[3])
                elif t == "for":
                    for item in node[1]:
                        scopes[-1]["q"] = item
                        run(node[2])
                elif t == "if":
                    if node[1]:
                        run(node[2])
                elif t == "reuse":
                    vals = {k: ev(v) for k, v in node[2].items()}
                    scopes.append(vals)      # the reuse element's attributes
                    # the instantiated <g> itself: the template's own attributes, replaced by same-named reuse attributes
                    scopes.append({k: vals.get(k, d) for k, d in self.tdefaults[node[1]].items()})
                    run(self.templates[node[1]])
                    scopes.pop()
                    scopes.pop()
        run(block)
        return out


def probes_of(out):
    return re.findall(r">(\[P\d+:[^<]*\])<", out.decode("utf-8", "replace"))


def gen_var_fwd(rng):
    """family var-fwd: one <var> with several attributes, one of which holds a forward element reference (so the whole <var>
    is deferred), the others updating variables from their own previous values (swap, increment, append). The probes
    are themselves positioned against the later element, so they are evaluated after the <var> in both twins: they must read
    the result of ONE simultaneous assignment."""
    a, b, c = rng.choice(["A1", "k9", "zz"]), rng.choice(["B2", "q", "X7x"]), rng.randint(0, 20)
    env = dict(a=a, b=b, c=str(c))
    n_var = rng.choice([1, 1, 2])
    lines_mid = []
    k = 0
    for _ in range(n_var):
        upd = {}
        kinds = rng.sample(["swap", "inc", "cat", "copy"], rng.choice([1, 2, 2, 3]))
        new = dict(env)
        for kd in kinds:
            if kd == "swap" and "a" not in upd and "b" not in upd:
                upd["a"], upd["b"] = "$b", "$a"
                new["a"], new["b"] = env["b"], env["a"]
            elif kd == "inc" and "c" not in upd:
                upd["c"] = "{{$c + 1}}"
                new["c"] = str(int(env["c"]) + 1)
            elif kd == "cat" and "a" not in upd:
                upd["a"] = "${a}x"
                new["a"] = env["a"] + "x"
            elif kd == "copy" and "b" not in upd:
                upd["b"] = "$a"
                new["b"] = env["a"]
        items = list(upd.items())
        rng.shuffle(items)
        items.insert(rng.randint(0, len(items)), ("w%d" % k, "{{#later~w + %d}}" % k))
        lines_mid.append("  <var %s/>" % " ".join('%s="%s"' % kv for kv in items))
        env = new
        k += 1
        lines_mid.append('  <text xy="#later|h %d" text="[P%d:$a|$b|$c|$i|$q]"/>' % (k, k))
    later = '  <rect id="later" xy="3 4" wh="2"/>'
    head = '  <var a="%s" b="%s" c="%d"/>' % (a, b, c)
    def doc(later_first):
        return "\n".join(["<svg>", head] + ([later] if later_first else []) + lines_mid + ([] if later_first else [later]) + ["</svg>"])
    return doc(False), doc(True)


def gen_case(rng):
    family = rng.choice(["general-fwd", "general-fwd", "benign-fwd", "benign-fwd", "benign-fwd", "no-fwd", "var-fwd"])
    if family == "var-fwd":
        f, b = gen_var_fwd(rng)
        return dict(fwd=f.encode(), bwd=b.encode(), expected=None, shadow=True, uses_fwd=True, family=family)
    for _ in range(2000):
        p = Prog(rng, fwd=(family == "general-fwd"))
        block = p.block(0, rng.randint(3, 8))
        if family == "benign-fwd":
            # elements containing a forward reference are appended after every assignment and contain none themselves,
            # so deferring / re-evaluating them cannot change what any probe should read
            for _e in range(rng.randint(1, 2)):
                attrs = {nm: p.value_expr() for nm in rng.sample(NAMES, rng.choice([0, 1, 2]))}
                block.append(("g", attrs, p.block_noassign(1, rng.randint(1, 4))))
                p.k += 1
                block.append(("probe", p.k))
        if rng.random() < 0.8:
            block.insert(0, ("var", {nm: ("lit", p.token()) for nm in rng.sample(NAMES, rng.choice([1, 2, 2, 3]))}))
        try:
            exp = p.interpret(block)
        except ValueError:
            continue
        if not exp:
            continue
        doc_f = p.document(block, later_first=False)
        doc_b = p.document(block, later_first=True)
        if rng.random() < 0.25:
            # the same program with names containing non-ASCII letters, one name being a prefix of the other
            ren = {"a": UNI[0], "b": UNI[1]}

            def rename(text):
                text = re.sub(r"(?<=\s)(a|b)=", lambda m: ren[m.group(1)] + "=", text)
                text = re.sub(r"\$\{(a|b)\}", lambda m: "${" + ren[m.group(1)] + "}", text)
                return re.sub(r"\$(a|b)\b", lambda m: "$" + ren[m.group(1)], text)
            doc_f, doc_b, exp = rename(doc_f), rename(doc_b), [rename(e) for e in exp]
            pass      # (same family: the known findings of the general-fwd family apply to both spellings)
        return dict(fwd=doc_f.encode(), bwd=doc_b.encode(), expected=exp, shadow=p.shadow, uses_fwd=p.uses_fwd, family=family)
    raise RuntimeError("generator could not produce a program")


def first_diff(a, b):
    for i, (x, y) in enumerate(zip(a, b)):
        if x != y:
            return i, x, y
    if len(a) != len(b):
        i = min(len(a), len(b))
        return i, (a[i] if i < len(a) else None), (b[i] if i < len(b) else None)
    return None


def classify(case_text, exp_probe):
    """which constructs enclose / precede the first wrong probe: a coarse mechanism signature"""
    m = re.match(r"\[P(\d+):", exp_probe or "")
    if not m:
        return "?"
    idx = case_text.find("[P%s:" % m.group(1))
    pre = case_text[:idx] if idx >= 0 else case_text
    tags = []
    opened = re.findall(r"<(/?)(g|loop|for|if|reuse)\b", pre)
    stack = []
    for close, name in opened:
        if close:
            if stack and stack[-1] == name:
                stack.pop()
        elif name != "reuse":
            stack.append(name)
    inside = "+".join(sorted(set(stack))) or "top"
    fw = "after-fwdref" if "#later" in pre else "no-fwdref-before"
    return "in(%s)/%s" % (inside, fw)


def check_case(ctx, case):
    acc = ctx.acc
    acc.cases += 1
    exp = case["expected"]
    if case.get("shadow"):
        acc.nontriv(core.chash(case["fwd"]), ["family." + str(case.get("family")), "fwd" if case.get("uses_fwd") else "nofwd"])
    res = {}
    for which in ("bwd", "fwd"):
        r = ctx.run(case[which], dict(auto=False))
        if r.crashed:
            acc.count("crashed(C01's business)")
            return
        pr = r.get("probe") or {}
        bad_state = []
        if pr:
            if pr.get("scope_stack", 0) > 1:
                bad_state.append("scope_stack=%d" % pr["scope_stack"])
            if pr.get("element_stack", 0) != 0:
                bad_state.append("element_stack=%d" % pr["element_stack"])
            if pr.get("current_depth", 0) != 0:
                bad_state.append("current_depth=%d" % pr["current_depth"])
            if pr.get("in_specs"):
                bad_state.append("in_specs")
        if bad_state:
            acc.violation("end-state", "end-state:" + ",".join(sorted(re.sub(r"=\d+", "", b) for b in bad_state)), dict(case, which=which),
                          observed=pr, expected="scope_stack<=1, element_stack=0, current_depth=0, in_specs=false",
                          what="context not back at its base state after the transform (%s): %s" % ("Ok" if r.ok else "Err", bad_state))
        if not r.ok:
            if which == "fwd":
                acc.violation("evaluation-order", "fwd-only:deferred-element-rejected/%s" % case.get("family"), dict(case, which=which), observed=core.trunc(r.err, 300),
                              expected="Ok (the twin without forward references is accepted)",
                              what="the document is accepted when the referenced element comes first, rejected when it comes last")
            else:
                acc.violation("rejected", "rejected:%s/%s" % (r.kind, which), dict(case, which=which), observed=core.trunc(r.err, 300), expected="Ok")
            return
        res[which] = probes_of(r.out)
    d = first_diff(exp, res["bwd"]) if exp is not None else None      # var-fwd: the twin without forward references is the reference
    if exp is None and not res["bwd"]:
        acc.inconc("var-fwd-no-probes")
        return
    if d:
        text = case["bwd"].decode()
        acc.violation("probe-value", "lexical:%s" % classify(text, d[1] or d[2]).split("/")[0], dict(case, which="bwd"),
                      observed=dict(index=d[0], got=d[2]), expected=d[1],
                      what="probe %d reads %r, lexical scoping gives %r (document without forward references)" % (d[0], d[2], d[1]))
        return
    d = first_diff(res["bwd"], res["fwd"])
    if d:
        # only the forward-referencing twin is wrong: the retry loop made a difference. Which top-level element holds the probe?
        from . import xmlcanon
        label = re.match(r"\[(P\d+):", d[1] or d[2] or "")
        cls = "?"
        try:
            root = xmlcanon.parse_tree(case["fwd"]).elements()[0]
            for top in root.elements():
                txt = " ".join(e.attrs.get("text", "") for e in top.iter())
                if label and ("[%s:" % label.group(1)) in txt:
                    deferred = any("#later" in (e.attrs.get("xy") or "") for e in top.iter())
                    cls = "probe-inside-deferred-element" if deferred else "probe-after-retried-element"
                    break
        except Exception:
            pass
        acc.violation("evaluation-order", "fwd-only:%s/%s" % (cls, case.get("family")), dict(case, which="fwd"), observed=dict(index=d[0], got=d[2]), expected=d[1],
                      what="with a forward reference present, probe %d reads %r; the twin without forward references (and lexical scoping) gives %r" % (d[0], d[2], d[1]))


def run_shard(ctx):
    acc = ctx.acc
    rng = ctx.rng("prog")
    n = 7000 if ctx.quick() else 150000
    for j in range(n):
        if ctx.out_of_time():
            acc.notes.append("time budget reached after %d programs" % j)
            break
        case = gen_case(rng)
        check_case(ctx, case)
        if j < 2:
            acc.sample(dict(program=case["fwd"].decode(), expected_probes=(case["expected"] or [])[:6]))
