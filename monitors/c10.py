"""C10 Forward references: geometry is independent of document order.

For side-effect-free reference DAGs (ids only, no '^', no <var>): all n! sibling orders (n <= 5; 60 sampled orders
above) must agree on success and on every element's geometry; the baseline (generation = topological order) is also
checked against the C09 reference layout. Negative family: an unsatisfiable reference (unknown id, cycle, target
without a bounding box) must fail in every order."""
import itertools
import re

from . import core, geom, layout, c09
from .geom import fmt, F

LEVEL = "exploration"
TECHNIQUE = "metamorphic runtime oracle: enumerate sibling permutations (the evaluation schedules of the retry loop) and compare per-id geometry; reference layout for the baseline"
LEVEL_TEXT = ("Held on the executions observed: ~2e3 DAGs x all permutations (n<=5) or 60 sampled orders: identical success and "
              "identical per-id geometry in every order, baseline equal to the reference layout; ~1e3 unsatisfiable documents "
              "failed in every order. Exploration: orders are enumerated exhaustively for small n, DAGs are sampled.")
LEVEL_NOTE = ("Trusted: geometry comparison by id on parsed output attributes. Documents are side-effect free (no '^', no "
              "variables), so the only thing a permutation changes is the schedule of the retry loop.")
BUDGET_S = {"quick": 150, "thorough": 1500}
FLOOR = {"quick": 200, "thorough": 3000}
RULE = ("DAGs of 3..7 top-level siblings: targets spelt with wh vs width/height, absolute vs relative position, circle by "
        "r / wh, line by xy1/xy2; referrers: xy relspec, per-axis, scalar, expression {{#a~w}}, wh=#a, surround, inside, "
        "connector start/end, polyline points=#a@c, use, reuse; non-trivial = at least one order contains a forward "
        "reference; distinct by hash(set of sibling elements)")
ASSUMPTIONS = ["no '^' and no variables: documents are side-effect free"]


def extra_referrers(rng, g, k):
    """referrer elements the layout model does not cover: compared differentially across orders only"""
    out = []
    targets = [e for e in g.els if e.box is not None and e.shape in ("rect", "circle", "ellipse", "box")]
    anyt = [e for e in g.els if e.box is not None]
    for i in range(k):
        if not anyt:
            break
        kind = rng.choice(["surround", "inside", "connector", "connector-corner", "polyline", "use", "reuse", "expr", "surround2", "text-rel", "shifted", "clipped", "shifted-in-group",
                           "condition"])
        eid = "x%d" % i
        if kind in ("surround", "surround2"):
            ts = rng.sample(anyt, min(len(anyt), 1 if kind == "surround" else 2))
            s = '<%s id="%s" surround="%s"%s/>' % (rng.choice(["rect", "rect", "circle", "ellipse"]), eid, " ".join("#" + t.id for t in ts),
                                                   rng.choice(["", ' margin="2"', ' margin="1 3"', ' margin="10%"']))
            deps = [t.id for t in ts]
        elif kind == "inside":
            if not targets:
                continue
            t = rng.choice(targets)
            s = '<rect id="%s" inside="#%s"%s/>' % (eid, t.id, rng.choice(["", ' margin="1"']))
            deps = [t.id]
        elif kind in ("connector", "connector-corner"):
            if len(anyt) < 2:
                continue
            a, b = rng.sample(anyt, 2)
            if kind == "connector":
                s = '<line id="%s" start="#%s%s" end="#%s%s"%s/>' % (eid, a.id, rng.choice(["", "@r", "@b:25%"]), b.id, rng.choice(["", "@l", "@t"]),
                                                                      rng.choice(["", ' edge-type="h"', ' edge-type="v"']))
            else:
                s = '<polyline id="%s" start="#%s%s" end="#%s%s"/>' % (eid, a.id, rng.choice(["", "@r", "@b"]), b.id, rng.choice(["", "@l", "@t"]))
            deps = [a.id, b.id]
        elif kind == "polyline":
            ts = rng.sample(anyt, min(len(anyt), 2))
            s = '<polyline id="%s" points="%s 1 2"/>' % (eid, " ".join("#%s@%s" % (t.id, rng.choice(geom.LOCS9)) for t in ts))
            deps = [t.id for t in ts]
        elif kind == "use":
            t = rng.choice(anyt)
            s = '<use id="%s" href="#%s" %s/>' % (eid, t.id, rng.choice(['x="5" y="7"', 'xy="#%s|h 2"' % rng.choice(anyt).id]))
            deps = [t.id] + re.findall(r'xy="#(\w+)', s)
        elif kind == "reuse":
            gs = [e for e in anyt if e.shape == "g"]
            if gs and rng.random() < 0.5:
                # a group instance placed by its centre or far corner: needs the size of the (possibly still pending) group
                t = rng.choice(gs)
                o = rng.choice(anyt)
                s = '<reuse id="%s" href="#%s" %s/>' % (eid, t.id, rng.choice(['cxy="40 30"', 'x2="50" y2="45"', 'cxy="#%s@br"' % o.id, 'cx="20" y="5"']))
                deps = [t.id] + re.findall(r'cxy="#(\w+)', s)
            else:
                t = rng.choice([e for e in anyt if e.shape != "g"] or anyt)
                s = '<reuse id="%s" href="#%s" x="3" y="4"/>' % (eid, t.id)
                deps = [t.id]
        elif kind == "shifted":
            # plain numeric geometry plus an individual dx / dy (consumed on resolution), and an unrelated attribute that
            # makes the element wait for its target
            t = rng.choice(anyt)
            s = '<rect id="%s" x="%d" y="%d" width="6" height="4"%s%s rx="{{#%s~w / 100}}"/>' % (
                eid, rng.randint(-20, 20), rng.randint(-20, 20), rng.choice(['', ' dx="%d"' % rng.randint(3, 15)]), rng.choice(['', ' dy="%d"' % rng.randint(-15, -3)]), t.id)
            deps = [t.id]
        elif kind == "shifted-in-group":
            # as 'shifted', but the element sits inside a group (which fails and is retried as a whole) and is referenced from outside
            t = rng.choice(anyt)
            s = '<g id="%sg" class="wrap"><rect id="%s" x="%d" y="%d" width="6" height="4" %s="{{#%s~w / 4 + 3}}"/></g>' % (
                eid, eid, rng.randint(-20, 20), rng.randint(-20, 20), rng.choice(["dx", "dy"]), t.id)
            deps = [t.id]
        elif kind == "clipped":
            t = rng.choice(anyt)
            cid = "cp%d" % i
            out.append((cid, '  <clipPath id="%s"><rect xy="#%s|h 1" wh="10"/></clipPath>' % (cid, t.id), [t.id], "clipPath"))
            if rng.random() < 0.5:
                s = '<rect id="%s" x="%d" y="%d" width="100" height="100" clip-path="url(#%s)"/>' % (eid, rng.randint(-50, 0), rng.randint(-50, 0), cid)
            else:
                # a container is clipped the same way (its box comes from its content)
                s = '<g id="%s" clip-path="url(#%s)"><rect x="%d" y="%d" width="100" height="100"/></g>' % (eid, cid, rng.randint(-50, 0), rng.randint(-50, 0))
            deps = [cid]
        elif kind == "expr":
            t = rng.choice(anyt)
            s = '<rect id="%s" xy="{{#%s~x2 + 1}} {{#%s~cy}}" wh="{{#%s~w / 2 + 1}} 2"/>' % (eid, t.id, t.id, t.id)
            deps = [t.id]
        elif kind == "condition":
            # a reference inside the condition of an <if> / the count of a <loop>: always true / one pass, whatever the order
            t = rng.choice(anyt)
            inner = '<rect id="%s" xy="%d %d" wh="3 2"/>' % (eid, rng.randint(-20, 60), rng.randint(-20, 60))
            s = rng.choice(['<if test="ge(#%s~w, 0)">%s</if>', '<if test="{{#%s~x2 - #%s~x + 1}}">%%s</if>' % (t.id, t.id), '<loop count="{{1 + 0 * #%s~h}}">%s</loop>',
                            '<if test="not(lt(#%s~cy, -1000))">%s</if>'])
            s = s % ((t.id, inner) if s.count("%s") == 2 else (inner,))
            deps = [t.id]
        else:
            t = rng.choice(anyt)
            s = '<text id="%s" xy="#%s|%s" text="t"/>' % (eid, t.id, rng.choice("hHvV"))
            deps = [t.id]
        out.append((eid, "  " + s, deps, kind))
    # second level: elements positioned against one of the referrers above (the referrer is then itself a target which may be
    # registered but unresolved when it is looked up)
    for j, (xid, _, _, xkind) in enumerate(list(out)):
        if xkind in ("text-rel", "clipPath") or rng.random() < (0.1 if xkind in ("shifted", "clipped", "shifted-in-group") else 0.4):
            continue
        yid = "y%d" % j
        form = rng.choice(["xy-rel", "cxy-loc", "surround", "expr", "connector"])
        if form == "xy-rel":
            s = '<rect id="%s" xy="#%s|%s 2" wh="3"/>' % (yid, xid, rng.choice("hHvV"))
        elif form == "cxy-loc":
            s = '<circle id="%s" cxy="#%s@%s" r="2"/>' % (yid, xid, rng.choice(geom.LOCS9))
        elif form == "surround":
            s = '<rect id="%s" surround="#%s" margin="1"/>' % (yid, xid)
        elif form == "expr":
            s = '<rect id="%s" xy="{{#%s~x2 + 1}} {{#%s~y}}" wh="2"/>' % (yid, xid, xid)
        else:
            other = rng.choice(anyt)
            s = '<line id="%s" start="#%s" end="#%s"/>' % (yid, xid, other.id)
        deps = [xid] + re.findall(r'end="#(\w+)', s)
        out.append((yid, "  " + s, deps, "on-%s/%s" % (xkind, form)))
    return out


def out_geometry(out):
    root = geom.parse_out(out)
    res = {}
    for e in root.iter():
        i = e.attrs.get("id")
        if i is not None:
            res[i] = (e.name, {k: v for k, v in e.attrs.items() if k in geom.GEOM_ATTRS or k in geom.SVGDX_GEOM_ATTRS})
    return res


def orders(rng, n, limit=60):
    if n <= 5:
        return list(itertools.permutations(range(n)))
    seen = {tuple(range(n)), tuple(reversed(range(n)))}
    while len(seen) < limit:
        p = list(range(n))
        rng.shuffle(p)
        seen.add(tuple(p))
    return sorted(seen)


def has_forward(order, items):
    pos = {items[i][0]: k for k, i in enumerate(order)}
    for k, i in enumerate(order):
        for d in items[i][2]:
            if d in pos and pos[d] > k:
                return True
    return False


def check_case(ctx, case):
    acc = ctx.acc
    acc.cases += 1
    items = case["items"]           # list of [id, text, deps, kind]
    n = len(items)
    rng = core.named_rng("c10-orders", case.get("oseed", 0))
    ords = case.get("orders") or orders(rng, n)
    if case.get("negative"):
        any_fwd = True
        for o in ords:
            doc = "<svg>\n" + "\n".join(items[i][1] for i in o) + "\n</svg>"
            r = ctx.run(doc, dict(auto=False))
            if r.ok:
                acc.violation("unsatisfiable-accepted", "unsatisfiable-accepted:" + case["negative"], dict(case, orders=[list(o)], input=doc.encode()),
                              observed=core.trunc(r.out, 600), expected="Err", what="a reference that can never be satisfied (%s) was silently resolved" % case["negative"])
                break
        acc.nontriv(core.chash("neg", sorted(i[1] for i in items)), ["negative." + case["negative"]])
        return
    base = None
    fwd = False
    for o in ords:
        doc = "<svg>\n" + "\n".join(items[i][1] for i in o) + "\n</svg>"
        r = ctx.run(doc, dict(auto=False))
        if r.crashed:
            acc.count("crashed(C01's business)")
            return
        f = has_forward(o, items)
        fwd = fwd or f
        res = ("ok", out_geometry(r.out)) if r.ok else ("err", None)
        if base is None:
            base = (o, res, doc, r)
            if r.ok and case.get("els"):
                c09.check_doc(ctx, dict(input=doc.encode(), deps=case.get("deps", {}), tol=case.get("tol", "0")), case["els"], r.out)
            continue
        if res[0] != base[1][0]:
            kinds = sorted(set(i[3] for i in items))
            acc.violation("order-dependent-success", "order:success-differs/%s" % ("ok-then-err" if base[1][0] == "ok" else "err-then-ok"),
                          dict(case, orders=[list(base[0]), list(o)], input=doc.encode()),
                          observed=dict(order=list(o), result=res[0], err=core.trunc(r.get("err"), 300)), expected=dict(order=list(base[0]), result=base[1][0]),
                          what="two sibling orders disagree on success")
            break
        if res[0] == "ok" and res[1] != base[1][1]:
            diff = sorted(k for k in set(res[1]) | set(base[1][1]) if res[1].get(k) != base[1][1].get(k))
            kind_of = {i[0]: i[3] for i in items}
            # root cause: first differing element in dependency order
            first = None
            for i in items:
                if i[0] in diff or any(('id="%s"' % d) in i[1] for d in diff):
                    first = i[0]
                    break
            kind = kind_of.get(first, "?")
            acc.violation("order-dependent-geometry", "order:geometry/%s" % kind.split(":")[0],
                          dict(case, orders=[list(base[0]), list(o)], input=doc.encode()),
                          observed={k: res[1].get(k) for k in diff[:4]}, expected={k: base[1][1].get(k) for k in diff[:4]},
                          what="element(s) %s have different geometry in order %s than in order %s" % (diff[:4], list(o), list(base[0])))
            break
    if fwd:
        acc.nontriv(core.chash(sorted(i[1] for i in items)), case.get("feats", []))
    acc.count("orders-run", len(ords))


def spelling(e):
    a = dict(e.attrs)
    s = []
    s.append("size=wh" if "wh" in a else "size=width/height" if "width" in a else "size=r" if "r" in a else "size=rxy" if ("rxy" in a or "rx" in a) else "size=other")
    s.append("pos=relative" if e.deps else "pos=absolute")
    return e.shape + ":" + "+".join(s)


def make_case(rng):
    n = rng.choice([3, 3, 4, 4, 5, 5, 6, 7])
    # one case in five on decimal values (tenths, round sizes): the comparison is between orders, so no tolerance is involved
    decimal = rng.random() < 0.2
    g = layout.LayoutGen(rng, exact=True, use_prev=False, decimal=decimal).build(n)
    # only top-level siblings are permuted
    items = [[e.id, e.render(), sorted(d for d in e.deps if d in {t.id for t in g.els}), "layout:" + "+".join(sorted(f for f in e.feats if f.startswith("form.")))]
             for e in g.els]
    # deps on nested children count as deps on their top-level group
    top_of = {}
    for t in g.els:
        def walk(e, top):
            top_of[e.id] = top
            for c in e.children or []:
                walk(c, top)
        walk(t, t.id)
    for it, e in zip(items, g.els):
        alld = set()

        def coll(x):
            alld.update(x.deps)
            for c in x.children or []:
                coll(c)
        coll(e)
        it[2] = sorted({top_of.get(d, d) for d in alld} - {e.id})
    extras = extra_referrers(rng, g, rng.choice([0, 1, 1, 2, 3]))
    for eid, s, deps, kind in extras:
        items.append([eid, s, sorted({top_of.get(d, d) for d in deps}), kind])
    if len(items) > 8:
        keep = {i[0] for i in items[:8]}
        items = [i for i in items[:8] if all(d in keep for d in i[2])]
    els = {eid: (e.shape, [fmt(v) for v in e.box.tuple()] if e.box else None,
                 [fmt(v) for v in (e.line[0] + e.line[1])] if e.line else None, sorted(e.feats)) for eid, e in g.all.items()}
    deps = {eid: sorted(e.deps) for eid, e in g.all.items()}
    spell = {e.id: spelling(e) for e in g.all.values()}
    feats = sorted(set(g.features()) | {"referrer." + i[3].split(":")[0] for i in items})
    case = dict(items=items, els=els, deps=deps, spell=spell, feats=feats + (["values.decimal"] if decimal else []), oseed=rng.randrange(1 << 30))
    if decimal:
        case["tol"] = fmt(F(11, 10000) * (1 + max(g.chain.values())))
    return case


def make_negative(rng):
    g = layout.LayoutGen(rng, exact=True, use_prev=False, shapes=["rect", "circle", "box"]).build(rng.choice([2, 3, 4]))
    items = [[e.id, e.render(), [], "layout"] for e in g.els]
    k = rng.choice(["unknown-id", "cycle", "self", "no-bbox", "no-bbox-in-list", "unknown-clip", "unknown-id-in-condition"])
    ref = rng.choice(["xy=\"#%s|h\" wh=\"2\"", "wh=\"#%s\"", "surround=\"#%s\"", "xy=\"{{#%s~x2}} 0\" wh=\"2\"", "cxy=\"#%s@c\" r=\"2\""])
    shape = "circle" if "r=" in ref else "rect"
    if k == "unknown-id":
        items.append(["z1", '  <%s id="z1" %s/>' % (shape, ref % "nowhere"), [], "neg"])
    elif k == "unknown-id-in-condition":
        items.append(["z1", '  ' + rng.choice(['<if test="gt(#nowhere~w, 3)"><rect id="z1" wh="2"/></if>', '<if test="#nowhere~w"><rect id="z1" wh="2"/></if>',
                                                  '<loop count="{{#nowhere~w}}"><rect id="z1" wh="2"/></loop>', '<loop while="lt(#nowhere~x, 0)"><rect id="z1" wh="2"/></loop>']), [], "neg"])
    elif k == "cycle":
        items.append(["z1", '  <rect id="z1" xy="#z2|h" wh="2"/>', [], "neg"])
        items.append(["z2", '  <%s id="z2" %s/>' % (shape, ref % "z1"), [], "neg"])
    elif k == "self":
        items.append(["z1", '  <%s id="z1" %s/>' % (shape, ref % "z1"), [], "neg"])
    elif k == "unknown-clip":
        # clip-path is a reference like any other: to a clipPath that does not exist it can never be satisfied
        inner = '<rect wh="3"/>'
        items.append(["z1", '  ' + rng.choice(['<g id="z1" clip-path="url(#nowhere)">%s</g>' % inner, '<rect id="z1" wh="4" clip-path="url(#nowhere)"/>',
                                                  '<a id="z1" href="x" clip-path="url(#nowhere)">%s</a>' % inner]), [], "neg"])
    elif k == "no-bbox-in-list":
        # the boxless target is one of several listed elements: it must not be silently left out
        items.append(["z2", '  <%s id="z2"/>' % rng.choice(["rect", "circle", "g", "title"]), [], "neg"])
        other = rng.choice(g.els).id
        lst = ["#z2", "#" + other]
        rng.shuffle(lst)
        items.append(["z1", '  <%s id="z1" %s="%s"/>' % (rng.choice(["rect", "circle"]), rng.choice(["surround", "surround", "inside"]), " ".join(lst)), [], "neg"])
    else:
        items.append(["z2", '  <%s id="z2"/>' % rng.choice(["rect", "circle", "defs", "g", "title"]), [], "neg"])
        items.append(["z1", '  <%s id="z1" %s/>' % (shape, ref % "z2"), [], "neg"])
    return dict(items=items, negative=k, feats=["negative." + k], oseed=rng.randrange(1 << 30))


def run_shard(ctx):
    acc = ctx.acc
    rng = ctx.rng("dags")
    n = 400 if ctx.quick() else 8000
    for j in range(n):
        if ctx.out_of_time():
            acc.notes.append("time budget reached after %d DAGs" % j)
            break
        case = make_negative(rng) if j % 4 == 3 else make_case(rng)
        check_case(ctx, case)
        if j < 2:
            acc.sample(dict(siblings=[i[1] for i in case["items"]], negative=case.get("negative")))
