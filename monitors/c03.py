"""C03 Real SVG (namespaced root) passes through with an identical XML infoset.

Workload: random well-formed XML over the SVG vocabulary and svgdx-looking content, every XML construct
(entity/char references, both quote kinds, namespaced attributes, PIs, doctype, CDATA, comments, CRLF) x
configurations; nested variant: such a subtree embedded in an svgdx document.
Oracle: expat event lists of input and output must be equal (attribute order free, CDATA = chars)."""
import re

from . import core, docgen, xmlcanon

NEEDS_FRONTENDS = True
LEVEL = "exploration"
TECHNIQUE = "differential runtime oracle: infoset (expat event list) of output vs input for generated real-SVG documents and embedded subtrees"
LEVEL_TEXT = ("Held on the executions observed: for ~5e4 generated well-formed namespaced documents x configurations, and for "
              "namespaced subtrees embedded in svgdx documents, the transform succeeded and the independent parser saw the "
              "same elements, attributes, character data, comments and PIs in the same order. Exploration over inputs x configs.")
LEVEL_NOTE = ("Trusted: expat's view of the infoset. Attribute order and CDATA section boundaries are not part of the comparison; "
              "documents are UTF-8; custom entities are only generated in text (never in attribute values).")
BUDGET_S = {"quick": 150, "thorough": 1500}
FLOOR = {"quick": 200, "thorough": 5000}
RULE = ("random XML trees (<= 40 elements, depth <= 6) over SVG + svgdx vocabulary serialised with random but equivalent "
        "spellings; non-trivial = Ok expected and the document contains a reference, a quote, a namespaced attribute, a "
        "PI/comment/CDATA or an svgdx-looking attribute; distinct by hash(input, config)")
ASSUMPTIONS = ["attribute order is not part of the infoset", "CDATA sections are compared as character data"]

SVGNS = "http://www.w3.org/2000/svg"
ELEMS = ["g", "rect", "circle", "ellipse", "line", "polyline", "polygon", "path", "text", "tspan", "defs", "use", "image",
         "a", "title", "desc", "style", "linearGradient", "stop", "marker", "clipPath", "filter", "feOffset", "symbol",
         "var", "loop", "reuse", "config", "specs", "if", "for", "defaults", "box", "point", "svg", "foreignObject"]
SVGDX_ATTRS = [("xy", "#a|h"), ("xy", "^|v 3"), ("wh", "10 20"), ("wh", "#a"), ("text", "Hello {{1+1}}"), ("text", "$v"),
               ("cxy", "#a@c"), ("x", "{{$i * 2}}"), ("surround", "#a #b"), ("start", "#a"), ("end", "#b"), ("dxy", "3"),
               ("count", "3"), ("test", "1"), ("href", "#a"), ("class", "d-red d-fill-blue d-grid-5"), ("class", " a  b a "),
               ("_", "comment"), ("__", "raw"), ("text-loc", "t"), ("d", "M0 0 b45 h3 z"), ("points", "#a@c 1 2"),
               ("loop-limit", "5"), ("id", "a"), ("id", "b"), ("transform", "translate(1)"), ("margin", "2"),
               ("style", "fill: red"), ("clip-path", "url(#c)"), ("xmlns:xlink", "http://www.w3.org/1999/xlink"),
               ("xlink:href", "#a"), ("xml:space", "preserve"), ("xml:lang", "en"), ("width", "100%"), ("height", "3cm")]
TEXTS = ["a & b", "x < y", "q > r", 'say "hi"', "it's", "&amp; literally", "tab\there", "  lead", "trail  ", "multi\nline",
         "😀 é 日本 ​", "$v {{1+1}} #a", "]]", "--", "plain", " ", "\n  ", "a]]>b", "&lt;tag&gt;", "100%", "{{", "}}"]


class RealGen:
    def __init__(self, rng):
        self.r = rng
        self.feats = set()
        self.n = 0
        self.entities = {}

    def attr_value(self):
        r = self.r
        if r.random() < 0.5:
            return r.choice(TEXTS)
        return r.choice(["1", "10 20", "red", "url(#g)", "none", "0.5", "M0 0 L1 1", "#a|h", "{{1+1}}"])

    def ser_attr_value(self, v):
        """random equivalent spelling of attribute value v; returns quoted string"""
        r = self.r
        quote = '"' if r.random() < 0.8 else "'"
        if quote == "'":
            self.feats.add("attr.single-quote")
        out = []
        for ch in v:
            if ch == "&":
                out.append(r.choice(["&amp;", "&#38;", "&#x26;"]))
                self.feats.add("attr.amp")
            elif ch == "<":
                out.append(r.choice(["&lt;", "&#60;"]))
                self.feats.add("attr.lt")
            elif ch == quote:
                out.append("&quot;" if quote == '"' else "&apos;")
                self.feats.add("attr.quote-ref")
            elif ch == ">" and r.random() < 0.5:
                out.append("&gt;")
            elif ch in "\t\n":
                if r.random() < 0.12:
                    out.append("&#%d;" % ord(ch))
                    self.feats.add("attr.charref-ws")
                else:
                    out.append(ch)
                    self.feats.add("attr.literal-ws")
            elif ord(ch) > 127 and r.random() < 0.2:
                out.append("&#x%X;" % ord(ch))
                self.feats.add("attr.charref")
            elif ch.isalpha() and r.random() < 0.03:
                out.append("&#%d;" % ord(ch))
                self.feats.add("attr.charref")
            else:
                out.append(ch)
        return quote + "".join(out) + quote

    def ser_text(self, s):
        r = self.r
        if s and r.random() < 0.2:
            self.feats.add("text.cdata")
            return docgen.cdata_wrap(s)
        out = []
        for i, ch in enumerate(s):
            if ch == "&":
                out.append(r.choice(["&amp;", "&#38;"]))
                self.feats.add("text.amp")
            elif ch == "<":
                out.append(r.choice(["&lt;", "&#x3c;"]))
                self.feats.add("text.lt")
            elif ch == ">":
                out.append("&gt;" if (s[max(0, i - 2):i] == "]]" or r.random() < 0.5) else ">")
            elif ch in "\"'" and r.random() < 0.3:
                out.append("&quot;" if ch == '"' else "&apos;")
                self.feats.add("text.quote-ref")
            elif ord(ch) > 127 and r.random() < 0.2:
                out.append("&#x%x;" % ord(ch))
                self.feats.add("text.charref")
            else:
                out.append(ch)
        if self.entities and r.random() < 0.3:
            name = r.choice(list(self.entities))
            out.append("&%s;" % name)
            self.feats.add("text.custom-entity")
        return "".join(out)

    def element(self, depth, budget):
        r = self.r
        name = r.choice(ELEMS)
        self.n += 1
        attrs = {}
        for _ in range(r.choice([0, 1, 1, 2, 3, 5])):
            if r.random() < 0.5:
                k, v = r.choice(SVGDX_ATTRS)
                self.feats.add("svgdx-looking")
            else:
                k = r.choice(["fill", "stroke", "x", "y", "width", "height", "data-a", "title", "opacity", "font-family"])
                v = self.attr_value()
            if k.startswith("xlink:"):
                attrs.setdefault("xmlns:xlink", "http://www.w3.org/1999/xlink")
                self.feats.add("attr.namespaced")
            if k.startswith("xml:"):
                self.feats.add("attr.namespaced")
            attrs[k] = v
        sattrs = ""
        items = list(attrs.items())
        r.shuffle(items)
        for k, v in items:
            sattrs += r.choice([" ", " ", "  ", "\n    "]) + k + r.choice(["=", "=", " = "]) + self.ser_attr_value(v)
        children = []
        if depth < 6 and budget[0] > 0 and r.random() < 0.6:
            for _ in range(r.randint(1, 4)):
                if budget[0] <= 0:
                    break
                k = r.random()
                if k < 0.55:
                    budget[0] -= 1
                    children.append(self.element(depth + 1, budget))
                elif k < 0.8:
                    children.append(self.ser_text(r.choice(TEXTS)))
                elif k < 0.9:
                    children.append("<!--%s-->" % docgen.comment_safe(r.choice(TEXTS + [" c ", ""])))
                    self.feats.add("comment")
                else:
                    children.append("<?%s %s?>" % (r.choice(["pi", "php", "xml-stylesheet"]), r.choice(["a=1", "x > y", "", "{{1}} $v"])))
                    self.feats.add("pi")
        if not children:
            if r.random() < 0.7:
                return "<%s%s%s/>" % (name, sattrs, r.choice(["", " "]))
            self.feats.add("empty-as-start-end")
            return "<%s%s></%s>" % (name, sattrs, name)
        return "<%s%s>%s</%s%s>" % (name, sattrs, "".join(children), name, r.choice(["", " ", "\n"]))

    def document(self):
        r = self.r
        pre = ""
        if r.random() < 0.3:
            pre += r.choice(['<?xml version="1.0"?>', '<?xml version="1.0" encoding="UTF-8"?>',
                             "<?xml version='1.0' encoding='utf-8' standalone='yes'?>"]) + r.choice(["", "\n"])
            self.feats.add("xmldecl")
        if r.random() < 0.15:
            pre += "<!-- leading comment -->\n"
            self.feats.add("comment")
        if r.random() < 0.15:
            if r.random() < 0.3:
                self.entities = {"ent": "expansion"}
                pre += '<!DOCTYPE svg [ <!ENTITY ent "expansion"> ]>\n'
                self.feats.add("doctype.internal-subset")
            else:
                pre += '<!DOCTYPE svg PUBLIC "-//W3C//DTD SVG 1.1//EN" "http://www.w3.org/Graphics/SVG/1.1/DTD/svg11.dtd">\n'
                self.feats.add("doctype")
        if r.random() < 0.1:
            pre += "<?xml-stylesheet href='a.css'?>\n"
            self.feats.add("pi")
        root_attrs = [("xmlns", SVGNS)]
        for _ in range(r.choice([0, 0, 1, 2, 3])):
            root_attrs.append(r.choice([("version", "1.1"), ("width", "100"), ("height", "50mm"), ("viewBox", "0 0 10 10"),
                                        ("id", "root"), ("class", "x y"), ("xmlns:xlink", "http://www.w3.org/1999/xlink"),
                                        ("style", "background: url('a&b')"), ("wh", "20"), ("text", "root & text")]))
        seen = set()
        ra = ""
        r.shuffle(root_attrs)
        for k, v in root_attrs:
            if k in seen:
                continue
            seen.add(k)
            ra += " " + k + "=" + self.ser_attr_value(v)
        budget = [r.randint(0, 40)]
        body = []
        if r.random() < 0.12 and "clip-path" not in seen:
            # a self-contained clipped image: the root refers to a clipPath defined inside itself
            ra += ' clip-path="url(#rootclip)"'
            body.append('<defs><clipPath id="rootclip"><circle cx="5" cy="5" r="5"/></clipPath></defs>')
            self.feats.add("root.clip-path")
        for _ in range(r.randint(0, 6)):
            k = r.random()
            if k < 0.7:
                body.append(self.element(1, budget))
            elif k < 0.85:
                body.append(self.ser_text(r.choice(TEXTS)))
            else:
                body.append("<!--%s-->" % docgen.comment_safe(r.choice(TEXTS)))
                self.feats.add("comment")
            body.append(r.choice(["", "\n", "\n  ", " "]))
        post = ""
        # epilogue: anything XML allows after the root element (comments, processing instructions, white space), in any mix
        for _ in range(r.choice([0, 0, 0, 1, 1, 2, 3, 5])):
            k = r.random()
            if k < 0.4:
                post += r.choice(["\n", ""]) + "<!--%s-->" % r.choice([" trailing ", "x", " a -- b ".replace("--", "- -"), ""])
                self.feats.add("epilog.comment")
            elif k < 0.8:
                post += r.choice(["\n", ""]) + "<?%s %s?>" % (r.choice(["after-root", "xml-stylesheet", "php"]), r.choice(["x", "href='b.css'", "a > b", ""]))
                self.feats.add("epilog.pi")
            else:
                post += r.choice(["\n", " ", "  \n", "\t\n"])
                self.feats.add("epilog.ws")
        if r.random() < 0.1:
            post += "\n"
        doc = pre + "<svg%s>%s</svg>%s" % (ra, "".join(body), post)
        if r.random() < 0.1:
            doc = doc.replace("\n", "\r\n")
            self.feats.add("crlf")
        return doc


def sub_list_index(hay, needle):
    if not needle:
        return 0
    n = len(needle)
    first = needle[0]
    for i in range(len(hay) - n + 1):
        if hay[i] == first and hay[i:i + n] == needle:
            return i
    return -1


def diff_signature(a, b):
    """classify the first infoset difference"""
    d = xmlcanon.first_diff(a, b)
    if d is None:
        return "none", None
    i, x, y = d
    if x is None or y is None:
        return "length", d
    if x[0] != y[0]:
        return "kind:%s->%s" % (x[0], y[0]), d
    if x[0] == "start":
        if x[1] != y[1]:
            return "element-name", d
        ka, kb = set(x[2]), set(y[2])
        if ka != kb:
            return "attr-set(%s)" % ",".join(sorted((ka ^ kb)))[:60], d
        for k in sorted(ka):
            if x[2][k] != y[2][k]:
                va, vb = x[2][k], y[2][k]
                if va.replace("\t", " ").replace("\n", " ") == vb.replace("\t", " ").replace("\n", " "):
                    return "attr-value:whitespace-char-changed", d
                return "attr-value", d
    if x[0] == "chars":
        if x[1].strip() == y[1].strip():
            return "chars:whitespace", d
        return "chars", d
    return x[0], d


def check_case(ctx, case):
    acc = ctx.acc
    if case.get("kind") == "cli-file-history":
        # replay: the same conversion into a file holding a longer earlier rendering
        import os
        import tempfile
        from . import frontends
        d = tempfile.mkdtemp(prefix="c03r-", dir=core.SCRATCH)
        op = os.path.join(d, "out.svg")
        open(op, "wb").write(b"<!-- earlier, longer content -->\n" * (2 + (case.get("previous_length", 0) + len(case["input"])) // 30))
        res = frontends.run_cli(["-o", op], stdin=case["input"])
        now = open(op, "rb").read()
        try:
            ok = res.rc == 0 and xmlcanon.infoset(xmlcanon.parse_events(now)) == xmlcanon.infoset(xmlcanon.parse_events(case["input"]))
        except xmlcanon.XMLError:
            ok = False
        if not ok:
            acc.violation("infoset-differs", "infoset:*/cli-file", case, observed=core.trunc(now[-300:], 300), expected="the document")
        return
    acc.cases += 1
    data = case["input"]
    cfg = case.get("cfg")
    feats = case.get("feats", [])
    try:
        exp = xmlcanon.infoset(xmlcanon.parse_events(case.get("subtree", data)))
    except xmlcanon.XMLError as e:
        acc.inconc("generator-produced-illformed-xml")
        acc.notes.append("generator bug: %s" % e)
        return
    r = ctx.run(data, cfg)
    if r.crashed:
        acc.count("crashed(C01's business)")
        return
    variant = case.get("variant", "root")
    nontrivial = any(f != "root" for f in feats)
    if nontrivial:
        acc.nontriv(core.chash(data, core.encode_cfg(cfg)), feats + ["variant." + variant])
    if r.status != "ok":
        sig = "rejected:%s/%s" % (r.kind, variant)
        if "text.custom-entity" in feats or "doctype.internal-subset" in feats:
            sig += "+dtd-entity"
        acc.violation("rejected", sig, case, observed=dict(err=core.trunc(r.err, 400)), expected="Ok",
                      what="real SVG rejected: %s" % core.trunc(r.err, 200))
        return
    try:
        got = xmlcanon.infoset(xmlcanon.parse_events(r.out, fragment=(variant != "root")))
    except xmlcanon.XMLError as e:
        acc.violation("output-illformed", "output-illformed/" + variant, case, observed=dict(error=str(e), output=core.trunc(r.out, 800)),
                      expected="well-formed")
        return
    if variant == "root":
        if got != exp:
            cls, d = diff_signature(exp, got)
            acc.violation("infoset-differs", "infoset:%s/root" % cls, case, observed=dict(first_difference=d, output=core.trunc(r.out, 800)),
                          expected="identical infoset", what="first difference (index, input, output): %s" % core.trunc(repr(d), 300))
    elif variant == "specs":
        # must be absent: no event of the subtree's root may appear
        if any(ev[0] == "start" and ev[2].get("data-verif-marker") == "1" for ev in got):
            acc.violation("specs-rendered", "specs-rendered", case, observed=core.trunc(r.out, 600), expected="content of <specs> absent")
    else:
        # how many times the host renders the subtree itself (loop bodies render it once per pass); copies made by <reuse>
        # may come on top, so this is a lower bound on the verbatim occurrences
        want = case.get("copies", 1)
        have, at = 0, 0
        while True:
            i = sub_list_index(got[at:], exp)
            if i < 0:
                break
            have += 1
            at += i + len(exp)
        if have < want:
            # find the subtree root in the output for a useful diff
            idx = -1
            for i, ev in enumerate(got):
                if ev[0] == "start" and ev[1] == "svg" and ev[2].get("data-verif-marker") == "1":
                    idx = i
                    break
            if have:
                # some copies are intact: describe the first one that is not
                idx = -1
                for i, ev in enumerate(got):
                    if ev[0] == "start" and ev[1] == "svg" and got[i:i + len(exp)] != exp and (
                            ev[2].get("data-verif-marker") == "1" or got[i + 1:i + len(exp)] == exp[1:]):
                        idx = i
                        break
            cls, d = ("subtree-missing", None) if idx < 0 else diff_signature(exp, got[idx:idx + len(exp)])
            if have:
                cls = "%d-of-%d-copies-intact:%s" % (have, want, cls)
            acc.violation("infoset-differs", "infoset:%s/%s" % (cls, variant), case,
                          observed=dict(first_difference=d, output=core.trunc(r.out, 800)), expected="subtree's event list contiguous in output",
                          what="nested namespaced <svg> changed: %s" % core.trunc(repr(d), 300))


def nested_doc(rng, sub, variant):
    if variant == "top":
        return '<svg>\n  <rect id="q" wh="10" text="before"/>\n  %s\n  <rect xy="^|h 2" wh="5"/>\n</svg>' % sub
    if variant == "group":
        return '<svg><g id="grp" transform="translate(3)">\n<rect wh="3"/>%s</g><circle r="2" cxy="#grp@r"/></svg>' % sub
    if variant == "forward":
        return '<svg><rect xy="#later|h" wh="2"/><g>%s<rect xy="#later|v" wh="2"/></g><rect id="later" wh="4"/></svg>' % sub
    if variant == "specs":
        return '<svg><specs>%s</specs><rect wh="4"/></svg>' % sub
    if variant == "loop":
        return '<svg><rect wh="3"/><loop count="2">%s<rect xy="^|h 1" wh="2"/></loop></svg>' % sub
    if variant == "loop-reuse":
        # sub carries id="ico" here
        return '<svg><loop count="2" loop-var="i">%s<reuse href="#ico" x="{{10 * $i}}"/></loop><rect wh="2"/></svg>' % sub
    if variant == "forward-reuse":
        # the group is attempted, fails on the forward reference, and is generated again once #later exists
        return ('<svg><g>%s<reuse href="#ico" y="20"/><rect xy="#later|v" wh="2"/></g>\n<rect id="later" wh="4"/></svg>' % sub)
    if variant == "fragment":
        return '<rect wh="3"/>\n%s\n<rect xy="^|h" wh="3"/>' % sub
    if variant == "fragment-group":
        # a host document without an <svg> root of its own
        return '<rect id="q" wh="3"/>\n<g id="grp">\n<rect wh="3"/>%s</g>\n<circle r="2" cxy="#q@r"/>' % sub
    raise ValueError(variant)


def run_shard(ctx):
    acc = ctx.acc
    rng = ctx.rng("real")
    n = 9000 if ctx.quick() else 150000
    for j in range(n):
        if ctx.out_of_time():
            acc.notes.append("time budget reached after %d docs" % j)
            break
        g = RealGen(rng)
        doc = g.document()
        feats = sorted(g.feats)
        for k in range(3):
            cfg = docgen.gen_cfg(rng) if k else None
            check_case(ctx, dict(input=doc.encode("utf-8"), cfg=cfg, feats=feats, variant="root"))
        if j < 2:
            acc.sample(dict(variant="root", input=core.trunc(doc, 500)))
        # nested variant
        if j % 2 == 0:
            g2 = RealGen(rng)
            budget = [rng.randint(0, 10)]
            inner = "".join(g2.element(2, budget) if rng.random() < 0.7 else g2.ser_text(rng.choice(TEXTS)) for _ in range(rng.randint(1, 4)))
            sattr = rng.choice(["", ' width="5" height="5"', ' x="1" wh="3"', ' id="n"', ' clip-path="url(#nclip)"', ' class="b  a b" width="{{1 + 2}}"',
                                ' filter="url(#nowhere)" clip-path="url(#nclip)" viewBox="0 0 10 10"', ' style="a: b" text="t" xy="#q|h"'])
            if "nclip" in sattr:
                # the subtree is self-contained: what its root refers to is defined inside it (and nowhere in the host)
                inner = '<defs><clipPath id="nclip"><circle cx="5" cy="5" r="5"/></clipPath></defs>' + inner
            variant = rng.choice(["top", "group", "forward", "specs", "fragment-group", "fragment", "loop", "loop-reuse", "forward-reuse"])
            if variant.endswith("-reuse"):
                sattr = re.sub(r' id="[^"]*"', "", sattr) + ' id="ico"'
            sub = '<svg xmlns="%s" data-verif-marker="1"%s>%s</svg>' % (SVGNS, sattr, inner)
            doc2 = nested_doc(rng, sub, variant)
            check_case(ctx, dict(input=doc2.encode("utf-8"), subtree=sub.encode("utf-8"), cfg=docgen.gen_cfg(rng) if rng.random() < 0.5 else None,
                                 feats=sorted(g2.feats | {"nested"}), variant=variant, copies=2 if variant.startswith("loop") else 1))
            if j < 2:
                acc.sample(dict(variant=variant, input=core.trunc(doc2, 500)))
    cli_file_history(ctx)


def cli_file_history(ctx):
    """The svgdx command converting real SVG into a file that already exists: a long document first, then shorter ones into
    the same path (and one into a file holding something unrelated); the *file* must hold the document's infoset each time."""
    import os
    import shutil
    import tempfile
    from . import frontends
    acc = ctx.acc
    rng = ctx.rng("cli-files")
    d = tempfile.mkdtemp(prefix="c03-", dir=core.SCRATCH)
    try:
        ip, op = os.path.join(d, "in.svg"), os.path.join(d, "out.svg")
        for j in range(4 if ctx.quick() else 60):
            if ctx.out_of_time():
                break
            docs = []
            while len(docs) < 4:
                g = RealGen(rng)
                t = g.document().encode("utf-8")
                try:
                    xmlcanon.parse_events(t)
                except xmlcanon.XMLError:
                    continue
                docs.append(t)
            docs.sort(key=len, reverse=True)
            if j % 2:
                open(op, "wb").write(b"<!-- something else that was here before -->\n" * 400)
            elif os.path.exists(op):
                os.unlink(op)
            for pos, data in enumerate(docs):
                acc.cases += 1
                via_stdin = (pos + j) % 3 == 0
                if via_stdin:
                    res = frontends.run_cli(["-o", op], stdin=data)
                else:
                    open(ip, "wb").write(data)
                    res = frontends.run_cli([ip, "-o", op])
                acc.evaluations += 1
                acc.count("cli.file-history")
                case = dict(kind="cli-file-history", input=data, variant="root", position=pos, previous_length=len(docs[pos - 1]) if pos else 0)
                if res.timed_out:
                    acc.inconc("cli-timeout")
                    continue
                acc.nontriv(core.chash("clifile", ctx.shard, j, pos), ["cli.file-output", "cli.stdin" if via_stdin else "cli.file-input"] + (["history.longer-file-before"] if pos or j % 2 else []))
                if res.rc != 0:
                    acc.violation("rejected", "rejected:cli-file/root", case, observed=dict(rc=res.rc, err=core.trunc(res.err, 300)), expected="exit 0")
                    continue
                now = open(op, "rb").read()
                try:
                    got = xmlcanon.infoset(xmlcanon.parse_events(now))
                except xmlcanon.XMLError as e:
                    acc.violation("output-illformed", "output-illformed/cli-file", case, observed=dict(error=str(e), tail=core.trunc(now[-300:], 300)), expected="the document",
                                  what="the output file is not well-formed after converting real SVG into an existing file: %s" % e)
                    continue
                exp = xmlcanon.infoset(xmlcanon.parse_events(data))
                if got != exp:
                    cls, dd = diff_signature(exp, got)
                    acc.violation("infoset-differs", "infoset:%s/cli-file" % cls, case, observed=dict(first_difference=dd), expected="identical infoset")
    finally:
        shutil.rmtree(d, ignore_errors=True)
