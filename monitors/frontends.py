"""Drivers for the shipped front-ends (release binaries built from /repo with hooks OFF):
the svgdx command and svgdx-server's POST /api/transform."""
import http.client
import os
import shutil
import socket
import subprocess
import tempfile
import time

from . import core


def scratch_dir(tag="fe"):
    os.makedirs(core.SCRATCH, exist_ok=True)
    return tempfile.mkdtemp(prefix="%s-%d-" % (tag, os.getpid()), dir=core.SCRATCH)


def rm(path):
    shutil.rmtree(path, ignore_errors=True)


class CliResult:
    def __init__(self, rc, out, err, timed_out=False):
        self.rc, self.out, self.err, self.timed_out = rc, out, err, timed_out

    @property
    def signal(self):
        return -self.rc if self.rc is not None and self.rc < 0 else None


def run_cli(args, stdin=None, timeout=120, cwd=None):
    """Run the svgdx binary. stdin: bytes or None."""
    try:
        p = subprocess.run([core.CLI_BIN] + list(args), input=stdin if stdin is not None else b"",
                           stdout=subprocess.PIPE, stderr=subprocess.PIPE, timeout=timeout, cwd=cwd,
                           preexec_fn=core._limits)
        return CliResult(p.returncode, p.stdout, p.stderr)
    except subprocess.TimeoutExpired as e:
        return CliResult(None, e.stdout or b"", e.stderr or b"", timed_out=True)


def free_port():
    s = socket.socket()
    s.bind(("127.0.0.1", 0))
    port = s.getsockname()[1]
    s.close()
    return port


class Server:
    """One svgdx-server process on an ephemeral port."""

    def __init__(self, binary=None, env=None, stderr_path=None):
        self.binary = binary or core.SERVER_BIN
        self.env = env
        self.stderr_path = stderr_path
        self.p = None
        self.port = None
        self.starts = 0

    def start(self):
        for _ in range(20):
            port = free_port()
            err = open(self.stderr_path, "ab") if self.stderr_path else subprocess.DEVNULL
            p = subprocess.Popen([self.binary, "--port", str(port)], stdout=subprocess.DEVNULL,
                                 stderr=err, env=self.env, preexec_fn=core._limits)
            ok = False
            for _ in range(400):
                if p.poll() is not None:
                    break
                try:
                    c = socket.create_connection(("127.0.0.1", port), timeout=0.2)
                    c.close()
                    ok = True
                    break
                except OSError:
                    time.sleep(0.01)
            if ok:
                self.p, self.port = p, port
                self.starts += 1
                return
            try:
                p.kill()
            except Exception:
                pass
        raise core.Inconclusive("could not start svgdx-server")

    def alive(self):
        return self.p is not None and self.p.poll() is None

    def exit_code(self):
        return None if self.p is None else self.p.poll()

    def stop(self):
        if self.p is not None:
            try:
                self.p.terminate()
                self.p.wait(timeout=5)
            except Exception:
                try:
                    self.p.kill()
                except Exception:
                    pass
            self.p = None

    def post(self, body, add_metadata=False, timeout=120):
        """POST /api/transform. Returns (status|None, content_type, body bytes, note)."""
        path = "/api/transform" + ("?add_metadata=true" if add_metadata else "")
        try:
            c = http.client.HTTPConnection("127.0.0.1", self.port, timeout=timeout)
            c.request("POST", path, body=body, headers={"Content-Type": "text/plain"})
            r = c.getresponse()
            data = r.read()
            ct = r.getheader("Content-Type")
            c.close()
            return r.status, ct, data, None
        except socket.timeout:
            return None, None, b"", "timeout"
        except (http.client.HTTPException, OSError) as e:
            return None, None, b"", "closed:%s" % type(e).__name__

    def probe(self):
        """liveness: GET /favicon.ico answers 200"""
        try:
            c = http.client.HTTPConnection("127.0.0.1", self.port, timeout=10)
            c.request("GET", "/favicon.ico")
            r = c.getresponse()
            r.read()
            c.close()
            return r.status == 200
        except Exception:
            return False


def run_cli_bursts(args, chunks, pause=0.02, timeout=120):
    """Run the svgdx binary with stdin delivered as the given chunks, one write() per chunk and a short pause between them
    (the pause is a stimulus, never a verdict). Output is drained by threads, so a large document cannot dead-lock the pipes."""
    import threading
    import time
    p = subprocess.Popen([core.CLI_BIN] + list(args), stdin=subprocess.PIPE, stdout=subprocess.PIPE, stderr=subprocess.PIPE,
                         preexec_fn=core._limits, bufsize=0)
    bufs = {"out": b"", "err": b""}

    def drain(f, k):
        bufs[k] = f.read()
    ts = [threading.Thread(target=drain, args=(p.stdout, "out")), threading.Thread(target=drain, args=(p.stderr, "err"))]
    for t in ts:
        t.daemon = True
        t.start()
    try:
        for i, c in enumerate(chunks):
            if i:
                time.sleep(pause)
            try:
                p.stdin.write(c)
            except (BrokenPipeError, OSError):
                break
        try:
            p.stdin.close()
        except (BrokenPipeError, OSError):
            pass
        try:
            rc = p.wait(timeout=timeout)
        except subprocess.TimeoutExpired:
            p.kill()
            p.wait()
            return CliResult(None, bufs["out"], bufs["err"], timed_out=True)
    finally:
        for t in ts:
            t.join(timeout=10)
    return CliResult(rc, bufs["out"], bufs["err"])
