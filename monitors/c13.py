"""C13 Connectors start and end on the referenced elements.

Two boxes in every relative placement (9 sectors, overlapping, touching, identical) x endpoint specifications
(element / element@loc / element@edge:offset / literal point) x connector kinds (straight line, edge-type h / v,
corner polyline with corner-offset abs / percent / absent). Oracle: the invariants of the statement."""
from fractions import Fraction as F

from . import core, geom
from .geom import Box, fmt

LEVEL = "exploration"
TECHNIQUE = "invariant-based runtime oracle over generated arrangements: endpoint-on-location, candidate-set membership, minimal distance, rectilinearity, perpendicular exit/entry"
LEVEL_TEXT = ("Held on the executions observed: ~1e5 connectors over all sector placements x endpoint specs x kinds: named locations hit "
              "exactly, automatic endpoints were candidate locations of minimal distance, literal points were verbatim, h/v connectors "
              "were axis-parallel through the middle of the overlap, corner polylines were rectilinear and left/entered perpendicular to "
              "the chosen edges, and connector attributes never reached the output. Exploration over the arrangement space.")
LEVEL_NOTE = ("Trusted: the invariants as read from the statement; ties accept any minimal pair. h/v connectors are generated between two plain "
              "element references only (the statement defines 'middle of the overlap' for two elements; without overlap only axis-parallelism and "
              "edge membership are checked). Corner polylines use edge locations only (no edge is 'chosen' at a corner location).")
BUDGET_S = {"quick": 120, "thorough": 1200}
FLOOR = {"quick": 200, "thorough": 5000}
RULE = ("two boxes (rect/circle/ellipse) in a random placement class + one connector; non-trivial = the connector was accepted; distinct by hash(document)")
ASSUMPTIONS = ["coordinates on a 1/4 grid, sizes multiples of 1/2"]

EDGE_MIDS = ["t", "r", "b", "l"]
CORNERS = ["tl", "tr", "br", "bl"]


def gen_boxes(rng):
    aw, ah = F(rng.randint(2, 40), 2), F(rng.randint(2, 40), 2)
    ax, ay = F(rng.randint(-80, 160), 4), F(rng.randint(-80, 160), 4)
    A = Box(ax, ay, ax + aw, ay + ah)
    bw, bh = F(rng.randint(2, 40), 2), F(rng.randint(2, 40), 2)
    cls = rng.choice(["sector"] * 6 + ["overlap", "touch", "identical", "contained", "grid"])
    if cls == "sector":
        sx, sy = rng.choice([-1, 0, 1]), rng.choice([-1, 0, 1])
        if sx == 0 and sy == 0:
            sx = 1
        gap = F(rng.randint(1, 80), 4)
        bx = A.x2 + gap if sx > 0 else (A.x1 - gap - bw if sx < 0 else A.x1 + F(rng.randint(-8, 8), 4))
        by = A.y2 + gap if sy > 0 else (A.y1 - gap - bh if sy < 0 else A.y1 + F(rng.randint(-8, 8), 4))
        cls = "sector(%d,%d)" % (sx, sy)
    elif cls == "overlap":
        bx, by = A.x1 + aw / 2, A.y1 + ah / 2
    elif cls == "touch":
        bx, by = A.x2, A.y1 + F(rng.randint(-8, 8), 4)
    elif cls == "identical":
        bx, by, bw, bh = A.x1, A.y1, aw, ah
    elif cls == "contained":
        bw, bh = aw / 2, ah / 2
        bx, by = A.x1 + aw / 4, A.y1 + ah / 4
    else:
        bx, by = A.x1 + rng.choice([-40, 0, 40]), A.y1 + rng.choice([-40, 0, 40])
        bw, bh = aw, ah
    B = Box(bx, by, bx + bw, by + bh)
    return A, B, cls


def shape_el(rng, eid, box):
    k = rng.choice(["rect", "rect", "circle", "ellipse", "use", "group"])
    if k == "circle" and box.w != box.h:
        k = "ellipse"
    if k == "use":
        # an instance of a template drawn at the origin, translated to the box's place
        return '<defs><rect id="t%s" width="%s" height="%s"/></defs><use id="%s" href="#t%s" x="%s" y="%s"/>' % (
            eid, fmt(box.w), fmt(box.h), eid, eid, fmt(box.x1), fmt(box.y1))
    if k == "group":
        return '<g id="%s"><rect xy="%s %s" wh="%s %s"/></g>' % (eid, fmt(box.x1), fmt(box.y1), fmt(box.w), fmt(box.h))
    if k == "rect":
        return '<rect id="%s" xy="%s %s" wh="%s %s"/>' % (eid, fmt(box.x1), fmt(box.y1), fmt(box.w), fmt(box.h))
    if k == "circle":
        return '<circle id="%s" cxy="%s %s" r="%s"/>' % (eid, fmt(box.cx), fmt(box.cy), fmt(box.w / 2))
    return '<ellipse id="%s" cxy="%s %s" rxy="%s %s"/>' % (eid, fmt(box.cx), fmt(box.cy), fmt(box.w / 2), fmt(box.h / 2))


def endpoint_spec(rng, eid, box, kind):
    """returns (text, spec) where spec = ('auto',) | ('loc', locspec) | ('lit', (x, y))"""
    k = rng.random()
    if kind in ("h", "v"):
        if k < 0.75:
            return "#" + eid, ("auto",)
        # a literal point as one (or both) of the ends of an h / v connector: which of its coordinates survives is not stated,
        # that the line is axis-parallel and the control attributes are consumed is
        x, y = F(rng.randint(-120, 240), 4), F(rng.randint(-120, 240), 4)
        return "%s %s" % (fmt(x), fmt(y)), ("lit", (x, y))
    if k < 0.35:
        return "#" + eid, ("auto",)
    if k < 0.85:
        if kind == "corner":
            ls = rng.choice(EDGE_MIDS) if rng.random() < 0.6 else (rng.choice("trbl"), rng.choice([("pct", F(25)), ("pct", F(75)), ("abs", F(1)), ("abs", -F(1)), ("pct", F(0))]))
        else:
            ls = rng.choice(geom.LOCS9) if rng.random() < 0.6 else (rng.choice("trbl"), rng.choice([("pct", F(25)), ("pct", F(150)), ("abs", F(3, 2)), ("abs", -F(2)), ("pct", F(50))]))
        return "#%s@%s" % (eid, geom.locspec_text(ls)), ("loc", ls)
    if kind == "corner":
        return "#" + eid, ("auto",)
    x, y = F(rng.randint(-120, 240), 4), F(rng.randint(-120, 240), 4)
    return "%s %s" % (fmt(x), fmt(y)), ("lit", (x, y))


def make_case(rng):
    A, B, cls = gen_boxes(rng)
    kind = rng.choice(["straight", "straight", "h", "v", "corner", "corner"])
    t1, s1 = endpoint_spec(rng, "a", A, kind)
    t2, s2 = endpoint_spec(rng, "b", B, kind)
    if s1[0] == "lit" and s2[0] == "lit" and kind == "corner":
        kind = "straight"
    extra = ""
    if kind in ("h", "v"):
        extra = ' edge-type="%s"' % rng.choice([kind, {"h": "horizontal", "v": "vertical"}[kind]])
    off = None
    if kind == "corner" and rng.random() < 0.5:
        off = rng.choice([("abs", F(2)), ("abs", F(5)), ("pct", F(25)), ("pct", F(75)), ("abs", -F(3)), ("abs", -F(3, 2))])
        extra = ' corner-offset="%s%s"' % (fmt(off[1]), "%" if off[0] == "pct" else "")
    unused = None
    if kind != "corner" and rng.random() < 0.2:
        # a control attribute the connector kind does not use must be consumed all the same
        unused = rng.choice(["7", "3", "2.5"])
        extra += ' corner-offset="%s"' % unused
    el = "polyline" if kind == "corner" else "line"
    conn = '<%s id="k" start="%s" end="%s"%s/>' % (el, t1, t2, extra)
    items = [shape_el(rng, "a", A), shape_el(rng, "b", B), conn]
    order = rng.choice([[0, 1, 2], [0, 1, 2], [2, 0, 1], [0, 2, 1]])
    doc = "<svg>\n" + "\n".join("  " + items[i] for i in order) + "\n</svg>"

    def enc(s):
        if s[0] == "loc":
            ls = s[1]
            return ["loc", ls if isinstance(ls, str) else [ls[0], [ls[1][0], fmt(ls[1][1])]]]
        if s[0] == "lit":
            return ["lit", [fmt(s[1][0]), fmt(s[1][1])]]
        return ["auto"]
    feats = ["kind." + kind, "place." + cls, "start." + s1[0], "end." + s2[0]] + (["corner-offset." + off[0]] if off else []) + (["forward-ref"] if order[0] == 2 or order[1] == 2 else []) + \
        (["corner-offset.unused"] if unused else [])
    return dict(input=doc.encode(), kind=kind, A=[fmt(v) for v in A.tuple()], B=[fmt(v) for v in B.tuple()], s1=enc(s1), s2=enc(s2), feats=feats)


def dec(s):
    if s[0] == "loc":
        ls = s[1]
        return ("loc", ls if isinstance(ls, str) else (ls[0], (ls[1][0], geom.fr(ls[1][1]))))
    if s[0] == "lit":
        return ("lit", (geom.fr(s[1][0]), geom.fr(s[1][1])))
    return ("auto",)


def d2(p, q):
    return (p[0] - q[0]) ** 2 + (p[1] - q[1]) ** 2


EPS = F(6, 10000)     # output coordinates are rounded to 3 decimals


def same(p, q):
    return abs(p[0] - q[0]) <= EPS and abs(p[1] - q[1]) <= EPS


def member(p, cands):
    return any(same(p, c) for c in cands)


def close_d(a, b):
    return abs(float(a) ** 0.5 - float(b) ** 0.5) <= 0.002


def check_case(ctx, case):
    acc = ctx.acc
    acc.cases += 1
    r = ctx.run(case["input"], dict(auto=False))
    if r.crashed:
        acc.count("crashed(C01's business)")
        return
    kind = case["kind"]
    if not r.ok and "corner-offset.pct" in case["feats"] and "requires absolute offset" in (r.err or ""):
        acc.count("rejected.u-shape-with-percent-offset(documented error, not judged)")
        return
    if not r.ok:
        acc.violation("rejected", "rejected:%s/%s" % (r.kind, kind), case, observed=core.trunc(r.err, 300), expected="Ok",
                      what="connector rejected: %s" % core.trunc(r.err, 200))
        return
    acc.nontriv(core.chash(case["input"]), case["feats"])
    ids = geom.by_id(geom.parse_out(r.out))
    el = ids.get("k")
    if el is None:
        acc.violation("element-missing", "connector-missing/" + kind, case, observed=sorted(ids), expected="k")
        return
    left = [a for a in ("start", "end", "edge-type", "corner-offset") if a in el.attrs]
    if left:
        acc.violation("attribute-left", "leftover(%s)" % ",".join(left), case, observed=el.attrs, expected="no connector attributes in the output")
    A, B = Box(*[geom.fr(v) for v in case["A"]]), Box(*[geom.fr(v) for v in case["B"]])
    s1, s2 = dec(case["s1"]), dec(case["s2"])
    try:
        if el.name == "line":
            pts = [(geom.attr_num(el, "x1", F(0)), geom.attr_num(el, "y1", F(0))), (geom.attr_num(el, "x2", F(0)), geom.attr_num(el, "y2", F(0)))]
        else:
            pts = geom.points_of(el)
    except ValueError as e:
        acc.violation("geometry-unreadable", "connector:unresolved-geometry/" + kind, case, observed=dict(attrs=el.attrs, error=str(e)), expected="numbers")
        return
    if len(pts) < 2:
        acc.violation("geometry-unreadable", "connector:too-few-points/" + kind, case, observed=el.attrs, expected=">= 2 points")
        return
    p, q = pts[0], pts[-1]

    def viol(clause, sig, what, exp=None):
        acc.violation(clause, "%s/%s" % (sig, kind), case, observed=dict(name=el.name, points=[(fmt(a), fmt(b)) for a, b in pts]), expected=exp, what=what)

    cand_names = {"straight": EDGE_MIDS + CORNERS, "h": ["l", "r"], "v": ["t", "b"], "corner": EDGE_MIDS}[kind]
    # --- named locations / literals
    for (pt, spec, box, which) in ((p, s1, A, "start"), (q, s2, B, "end")):
        if spec[0] == "loc" and kind not in ("h", "v"):
            want = box.point(spec[1])
            if not same(pt, want):
                viol("named-location", "endpoint-not-at-named-location:" + which, "%s is not at the named location" % which, exp=[fmt(want[0]), fmt(want[1])])
                return
        if spec[0] == "lit" and kind not in ("h", "v") and not same(pt, spec[1]):
            viol("literal", "literal-altered:" + which, "literal %s coordinate altered" % which, exp=[fmt(spec[1][0]), fmt(spec[1][1])])
            return
    if kind in ("straight", "corner"):
        ca = [A.loc(n) for n in cand_names]
        cb = [B.loc(n) for n in cand_names]
        if s1[0] == "auto" and s2[0] == "auto":
            best = min(d2(x, y) for x in ca for y in cb)
            if not member(p, ca) or not member(q, cb):
                viol("candidate-set", "endpoint-not-a-candidate", "an automatic endpoint is not one of the candidate locations")
            elif not close_d(d2(p, q), best):
                viol("minimal-distance", "not-minimal-distance:both-auto", "the chosen pair of locations is not of minimal distance (%s vs %s)" % (float(d2(p, q)), float(best)))
        elif s1[0] == "auto":
            best = min(d2(x, q) for x in ca)
            if not member(p, ca):
                viol("candidate-set", "endpoint-not-a-candidate", "automatic start is not a candidate location")
            elif not close_d(d2(p, q), best):
                viol("minimal-distance", "not-minimal-distance:start-auto", "automatic start is not the closest candidate to the end point")
        elif s2[0] == "auto":
            best = min(d2(p, y) for y in cb)
            if not member(q, cb):
                viol("candidate-set", "endpoint-not-a-candidate", "automatic end is not a candidate location")
            elif not close_d(d2(p, q), best):
                viol("minimal-distance", "not-minimal-distance:end-auto", "automatic end is not the closest candidate to the start point")
    if kind == "h":
        if len(pts) != 2 or abs(p[1] - q[1]) > EPS:
            viol("axis-parallel", "h-not-horizontal", "edge-type h connector is not horizontal")
            return
        if (s1[0] == "auto" and min(abs(p[0] - A.x1), abs(p[0] - A.x2)) > EPS) or (s2[0] == "auto" and min(abs(q[0] - B.x1), abs(q[0] - B.x2)) > EPS):
            viol("edge-membership", "h-endpoints-not-on-left/right-edges", "edge-type h endpoints are not on the left/right edges")
        lo, hi = max(A.y1, B.y1), min(A.y2, B.y2)
        if s1[0] == s2[0] == "auto" and lo <= hi and abs(p[1] - (lo + hi) / 2) > EPS:
            viol("overlap-middle", "h-not-through-middle-of-overlap", "edge-type h line is not through the middle of the vertical overlap", exp=fmt((lo + hi) / 2))
    if kind == "v":
        if len(pts) != 2 or abs(p[0] - q[0]) > EPS:
            viol("axis-parallel", "v-not-vertical", "edge-type v connector is not vertical")
            return
        if (s1[0] == "auto" and min(abs(p[1] - A.y1), abs(p[1] - A.y2)) > EPS) or (s2[0] == "auto" and min(abs(q[1] - B.y1), abs(q[1] - B.y2)) > EPS):
            viol("edge-membership", "v-endpoints-not-on-top/bottom-edges", "edge-type v endpoints are not on the top/bottom edges")
        lo, hi = max(A.x1, B.x1), min(A.x2, B.x2)
        if s1[0] == s2[0] == "auto" and lo <= hi and abs(p[0] - (lo + hi) / 2) > EPS:
            viol("overlap-middle", "v-not-through-middle-of-overlap", "edge-type v line is not through the middle of the horizontal overlap", exp=fmt((lo + hi) / 2))
    if kind == "corner":
        for a, b in zip(pts, pts[1:]):
            if abs(a[0] - b[0]) > EPS and abs(a[1] - b[1]) > EPS:
                viol("rectilinear", "corner-segment-not-axis-parallel", "a segment of the corner polyline is neither horizontal nor vertical")
                return

        def edges_of(pt, spec, box):
            if spec[0] == "loc":
                ls = spec[1]
                return [ls if isinstance(ls, str) else ls[0]]
            return [n for n in EDGE_MIDS if same(box.loc(n), pt)]

        def perpendicular(a, b, edges):
            if same(a, b):
                return True     # zero-length segment: direction undefined
            vertical = abs(a[0] - b[0]) <= EPS
            return any((vertical and e in "tb") or ((not vertical) and e in "lr") for e in edges)
        e1, e2 = edges_of(p, s1, A), edges_of(q, s2, B)
        if e1 and not perpendicular(pts[0], pts[1], e1):
            viol("perpendicular", "corner-leaves-not-perpendicular", "first segment does not leave perpendicular to the start edge %s" % e1)
        elif e2 and not perpendicular(pts[-1], pts[-2], e2):
            viol("perpendicular", "corner-enters-not-perpendicular", "last segment does not enter perpendicular to the end edge %s" % e2)
        # Not judged: on which side of the edge the first / last segment runs, and where corner-offset puts the corner. The
        # statement fixes neither, and svgdx itself runs through a box when the nearest candidate edge faces away (tried as a
        # check and withdrawn: 9% of the clean tree's corner connectors 'leave into the start box').


def run_shard(ctx):
    acc = ctx.acc
    rng = ctx.rng("conn")
    n = 16000 if ctx.quick() else 400000
    for j in range(n):
        if ctx.out_of_time():
            acc.notes.append("time budget reached after %d docs" % j)
            break
        case = make_case(rng)
        check_case(ctx, case)
        if j < 3:
            acc.sample(dict(input=case["input"].decode()))
