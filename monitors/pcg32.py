"""Reference PCG-XSH-RR 64/32 stream as rand_pcg::Pcg32 + rand_core::SeedableRng::seed_from_u64 define it,
and the two samplers svgdx uses: random::<f32>() and random_range(min..=max) over i32."""
M64 = (1 << 64) - 1
MUL = 6364136223846793005
SEED_INC = 11634580027462260723


def _rotr32(x, r):
    r &= 31
    return ((x >> r) | (x << (32 - r))) & 0xFFFFFFFF


def _out(state):
    xsh = (((state >> 18) ^ state) >> 27) & 0xFFFFFFFF
    return _rotr32(xsh, state >> 59)


class Pcg32:
    def __init__(self, seed):
        # seed_from_u64: fill 16 seed bytes with a PCG32 sequence
        state = seed & M64
        words = []
        for _ in range(4):
            state = (state * MUL + SEED_INC) & M64
            words.append(_out(state))
        s0 = words[0] | (words[1] << 32)
        s1 = words[2] | (words[3] << 32)
        self.inc = (s1 | 1) & M64
        self.state = (s0 + self.inc) & M64
        self._step()
        self.draws = 0

    def _step(self):
        self.state = (self.state * MUL + self.inc) & M64

    def next_u32(self):
        s = self.state
        self._step()
        self.draws += 1
        return _out(s)

    def random_f32(self):
        """rand 0.9 StandardUniform for f32: 24 random bits scaled by 2^-24"""
        return (self.next_u32() >> 8) * (1.0 / (1 << 24))

    def randint(self, lo, hi):
        """rand 0.9 UniformInt<i32>::sample_single_inclusive (Canon's method, one refinement step)"""
        rng = (hi - lo + 1) & 0xFFFFFFFF
        if rng == 0:
            return _to_i32(self.next_u32())
        m = self.next_u32() * rng
        result, lo_order = m >> 32, m & 0xFFFFFFFF
        if lo_order > ((-rng) & 0xFFFFFFFF):
            new_hi = (self.next_u32() * rng) >> 32
            if lo_order + new_hi > 0xFFFFFFFF:
                result += 1
        return _to_i32((lo + result) & 0xFFFFFFFF)


def _to_i32(x):
    return x - (1 << 32) if x & 0x80000000 else x
