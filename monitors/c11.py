"""C11 Uniform positioning: equivalent constraints give identical geometry.

Bounded-exhaustive structure: {rect, circle, ellipse, line} x 6x6 per-axis constraint pairs from
{start, end, centre, length} x spellings (x / x1, longhand vs xy cxy xy1 xy2 wh rxy, one value vs two, comma / space),
each instantiated on sampled dyadic boxes (negative, fractional, zero-size); plus dx/dy/dxy and dw/dh/dwh equivalence.
Oracle: native attributes derived from the box by the reference model (exact), attribute-name hygiene."""
import itertools

from . import core, geom
from .geom import F, fmt, Box

LEVEL = "exploration"
TECHNIQUE = "reference-model runtime oracle over a bounded-exhaustive enumeration of constraint structures x sampled boxes"
LEVEL_TEXT = ("Held on the executions observed: every structural case (4 shapes x 36 per-axis pairs x spellings, enumerated "
              "exhaustively) instantiated on sampled boxes produced exactly the native attributes the reference derives from the "
              "box, shorthands equalled their longhand pairs, and no shorthand/foreign geometry attribute survived. The value "
              "space (all boxes) is sampled, hence exploration; the structure part is exhaustive.")
LEVEL_NOTE = ("Trusted: the reference (box -> native attributes) of monitors/geom.py; boxes lie on a 1/4 grid so that centres and "
              "radii are exact at 3 decimals. For circles only square boxes are used with two full pairs; the circle-specific "
              "'one pair + one anchor' forms are enumerated separately.")
BUDGET_S = {"quick": 120, "thorough": 1200}
FLOOR = {"quick": 200, "thorough": 5000}
RULE = ("structural cases = shape x x-pair x y-pair x spelling, enumerated completely (exhaustive over structure); each is "
        "instantiated on k sampled boxes (k=200 quick / 3000 thorough); every case is non-trivial; distinct by hash(document)")
ASSUMPTIONS = ["coordinates are multiples of 1/4 in [-40, 80]; sizes >= 0"]

PAIRS = [("s", "e"), ("s", "c"), ("s", "l"), ("e", "c"), ("e", "l"), ("c", "l")]
SHAPES = ["rect", "circle", "ellipse", "line"]


def axis_values(lo, hi):
    return {"s": lo, "e": hi, "c": (lo + hi) / 2, "l": hi - lo}


def attr_name(shape, axis, kind, alt):
    """attribute spelling for a constraint kind on an axis; alt selects the alternative spelling where one exists"""
    if kind == "s":
        return (axis + "1") if alt else axis            # x / x1
    if kind == "e":
        return axis + "2"
    if kind == "c":
        return "c" + axis
    if kind == "l":
        if shape == "circle" and alt:
            return "r"
        if shape == "ellipse" and alt:
            return "r" + axis
        return "width" if axis == "x" else "height"
    raise ValueError(kind)


def length_value(shape, name, val):
    return val / 2 if name in ("r", "rx", "ry") else val


def expected_native(shape, box):
    if shape == "rect":
        return {"x": box.x1, "y": box.y1, "width": box.w, "height": box.h}
    if shape == "circle":
        return {"cx": box.cx, "cy": box.cy, "r": box.w / 2}
    if shape == "ellipse":
        return {"cx": box.cx, "cy": box.cy, "rx": box.w / 2, "ry": box.h / 2}
    if shape == "line":
        return {"x1": box.x1, "y1": box.y1, "x2": box.x2, "y2": box.y2}


def sep_join(rng, a, b):
    return a + rng.choice([" ", ",", ", ", "  ", " ,"]) + b


def build_attrs(rng, shape, px, py, box, spelling):
    """returns list of (name, value-string). spelling: 'long', 'alt', 'short'"""
    vx, vy = axis_values(box.x1, box.x2), axis_values(box.y1, box.y2)
    # 'alt-x' / 'alt-y': the alternative spelling on one axis only (e.g. an ellipse with rx on x and height on y)
    alt_x, alt_y = spelling in ("alt", "alt-x"), spelling in ("alt", "alt-y")
    attrs = {}
    for kind in px:
        n = attr_name(shape, "x", kind, alt_x)
        attrs[n] = length_value(shape, n, vx[kind])
    for kind in py:
        n = attr_name(shape, "y", kind, alt_y)
        attrs[n] = length_value(shape, n, vy[kind])
    if shape == "circle" and "r" in attrs:
        # r is one attribute for both axes; only valid when both axes ask for it
        if not ("l" in px and "l" in py):
            attrs.pop("r")
            if "l" in px:
                attrs["width"] = vx["l"]
            if "l" in py:
                attrs["height"] = vy["l"]
    out = {k: fmt(v) for k, v in attrs.items()}
    if spelling == "short":
        shorts = [("xy", "x", "y"), ("cxy", "cx", "cy"), ("xy2", "x2", "y2"), ("wh", "width", "height")]
        if shape == "line":
            shorts.insert(0, ("xy1", "x", "y"))
        for sh, a, b in shorts:
            if a in out and b in out and sh not in out:
                va, vb = out.pop(a), out.pop(b)
                out[sh] = va if (va == vb and rng.random() < 0.7) else sep_join(rng, va, vb)
    items = list(out.items())
    rng.shuffle(items)
    return items


def make_doc(shape, items, eid="t", extra=""):
    return '<svg><%s id="%s" %s%s/></svg>' % (shape, eid, " ".join('%s="%s"' % kv for kv in items), extra)


def sample_box(rng, shape):
    k = rng.random()
    x1, y1 = geom.grid(rng), geom.grid(rng)
    if k < 0.1:
        w = h = F(0)
    else:
        w, h = F(rng.randint(0, 160), 4), F(rng.randint(0, 160), 4)
    if shape == "circle":
        # keep r = w/2 exactly printable with 3 decimals: w multiple of 1/4 -> r multiple of 1/8
        h = w
    return Box(x1, y1, x1 + w, y1 + h)


def compare(ctx, case, out, shape, exp, sig_prefix):
    acc = ctx.acc
    try:
        root = geom.parse_out(out)
    except Exception as e:
        acc.violation("output-unparsable", sig_prefix + ":unparsable", case, observed=str(e), expected="XML")
        return False
    els = [e for e in root.iter() if e.attrs.get("id") == "t"]
    if len(els) != 1 or els[0].name != shape:
        acc.violation("element-missing", sig_prefix + ":element-missing", case, observed=core.trunc(out, 300), expected="one <%s id=t>" % shape)
        return False
    el = els[0]
    ok = True
    foreign = geom.foreign_geometry_attrs(el)
    if foreign:
        acc.violation("foreign-attribute", "%s:leftover(%s)" % (sig_prefix, ",".join(sorted(foreign))), case,
                      observed=dict(el.attrs), expected="only native geometry attributes", what="non-native geometry attribute(s) left in the output: %s" % sorted(foreign))
        ok = False
    got = {}
    for k, v in exp.items():
        try:
            got[k] = geom.attr_num(el, k, F(0) if k in ("x", "y", "cx", "cy", "x1", "y1", "x2", "y2") else None)
        except ValueError as e:
            got[k] = str(e)
    tol = geom.fr(case.get("tol", "0"))

    def differs(a, b):
        if isinstance(a, F) and isinstance(b, F):
            return abs(a - b) > tol
        return a != b
    bad = sorted(k for k in exp if differs(got.get(k), exp[k]))
    if bad:
        acc.violation("geometry-differs", "%s:geometry(%s)" % (sig_prefix, ",".join(bad)), case,
                      observed={k: (fmt(v) if isinstance(v, F) else v) for k, v in got.items()}, expected={k: fmt(v) for k, v in exp.items()},
                      what="output geometry differs from the box the constraints describe")
        ok = False
    return ok


def check_case(ctx, case):
    acc = ctx.acc
    acc.cases += 1
    r = ctx.run(case["input"], dict(auto=False))
    acc.nontriv(core.chash(case["input"]), case.get("feats", []))
    if r.crashed:
        acc.count("crashed(C01's business)")
        return
    sig = case["sig"]
    if not r.ok:
        acc.violation("rejected", sig + ":rejected", case, observed=core.trunc(r.err, 300), expected="Ok",
                      what="sufficient constraints rejected: %s" % core.trunc(r.err, 200))
        return
    if case.get("twin") is not None:
        # differential: the shorthand document must give exactly the geometry of its longhand twin
        r2 = ctx.run(case["twin"], dict(auto=False))
        if not r2.ok:
            acc.violation("rejected", sig + ":twin-rejected", case, observed=core.trunc(r2.get("err"), 300), expected="Ok")
            return
        try:
            el = [e for e in geom.parse_out(r2.out).iter() if e.attrs.get("id") == "t"][0]
            exp = {k: geom.attr_num(el, k, F(0) if k in ("x", "y", "cx", "cy") else None) for k in geom.NATIVE[case["shape"]] if k in el.attrs or k in ("x", "y", "cx", "cy")}
            exp = {k: v for k, v in exp.items() if k in expected_native(case["shape"], Box(0, 0, 1, 1))}
        except Exception as e:
            acc.inconc("twin-unreadable")
            return
        compare(ctx, case, r.out, case["shape"], exp, sig)
        return
    exp = {k: geom.fr(v) for k, v in case["expected"].items()}
    compare(ctx, case, r.out, case["shape"], exp, sig)


def sample_box_decimal(rng, shape):
    """one-decimal coordinates (not representable exactly in binary floating point), sizes often round numbers: derived
    values then carry rounding noise around 'nice' results (20.000002, 9.999999)"""
    x1, y1 = F(rng.randint(-500, 1500), 10), F(rng.randint(-500, 1500), 10)

    def size():
        return F(rng.choice([10, 20, 30, 50, 100, 200])) if rng.random() < 0.4 else F(rng.randint(0, 400), 10)
    w, h = size(), size()
    if shape == "circle":
        h = w
    return Box(x1, y1, x1 + w, y1 + h)


def run_shard(ctx):
    acc = ctx.acc
    rng = ctx.rng("boxes")
    k = 200 if ctx.quick() else 3000
    n = 0
    structural = 0
    for shape in SHAPES:
        for px in PAIRS:
            for py in PAIRS:
                for spelling in ("long", "alt", "short", "alt-x", "alt-y"):
                    structural += 1
                    if not ctx.mine(structural):
                        continue
                    for _ in range(k):
                        if ctx.out_of_time():
                            return
                        box = sample_box(rng, shape)
                        items = build_attrs(rng, shape, px, py, box, spelling)
                        doc = make_doc(shape, items)
                        exp = expected_native(shape, box)
                        case = dict(input=doc.encode(), shape=shape, expected={a: fmt(v) for a, v in exp.items()},
                                    sig="%s/%s%s-%s%s/%s" % (shape, px[0], px[1], py[0], py[1], spelling),
                                    feats=["shape." + shape, "pair.x." + "".join(px), "pair.y." + "".join(py), "spelling." + spelling])
                        check_case(ctx, case)
                        n += 1
                        if n == 3:
                            acc.sample(dict(input=doc, expected=case["expected"]))
                    # the same structural case on decimal boxes; compared up to the 3-decimal output rounding
                    for _ in range(max(1, k // 4)):
                        if ctx.out_of_time():
                            return
                        box = sample_box_decimal(rng, shape)
                        items = build_attrs(rng, shape, px, py, box, spelling)
                        exp = expected_native(shape, box)
                        case = dict(input=make_doc(shape, items).encode(), shape=shape, expected={a: fmt(v) for a, v in exp.items()}, tol="0.0011",
                                    sig="%s/%s%s-%s%s/%s/decimal" % (shape, px[0], px[1], py[0], py[1], spelling),
                                    feats=["shape." + shape, "values.decimal", "spelling." + spelling])
                        check_case(ctx, case)
    # directed lines: a <line> running right-to-left and/or bottom-to-top (x2 < x1, y2 < y1). Start, end and centre are the
    # same three points whatever the direction, so every pair of them must still give x1/y1/x2/y2 of that segment; a length
    # is unsigned and says nothing about direction, so pairs with 'l' are left out here
    for px in [("s", "e"), ("s", "c"), ("e", "c")]:
        for py in [("s", "e"), ("s", "c"), ("e", "c")]:
            for spelling in ("long", "alt", "short"):
                structural += 1
                if not ctx.mine(structural):
                    continue
                for _ in range(k):
                    if ctx.out_of_time():
                        return
                    b = sample_box(rng, "line")
                    flip = rng.choice(["x", "y", "xy"])
                    box = Box(b.x2 if "x" in flip else b.x1, b.y2 if "y" in flip else b.y1,
                              b.x1 if "x" in flip else b.x2, b.y1 if "y" in flip else b.y2)
                    items = build_attrs(rng, "line", px, py, box, spelling)
                    exp = expected_native("line", box)
                    case = dict(input=make_doc("line", items).encode(), shape="line", expected={a: fmt(v) for a, v in exp.items()},
                                sig="line/directed-%s/%s%s-%s%s/%s" % (flip, px[0], px[1], py[0], py[1], spelling),
                                feats=["shape.line", "line.directed." + flip, "pair.x." + "".join(px), "pair.y." + "".join(py)])
                    check_case(ctx, case)
    # deltas: dx/dy/dxy translate, dw/dh/dwh resize (absolute and percent), equivalence of shorthand and longhand
    for shape in SHAPES:
        for form in ("dx-dy", "dxy2", "dxy1", "dw-dh", "dwh2", "dwh1", "dwh-pct"):
            structural += 1
            if not ctx.mine(structural):
                continue
            for _ in range(k):
                box = sample_box(rng, shape)
                dx, dy = geom.grid(rng, -10, 10), geom.grid(rng, -10, 10)
                base = build_attrs(rng, shape, ("s", "l"), ("s", "l"), box, "long")
                if form.startswith("dx"):
                    if form == "dx-dy":
                        extra = [("dx", fmt(dx)), ("dy", fmt(dy))]
                    elif form == "dxy2":
                        extra = [("dxy", sep_join(rng, fmt(dx), fmt(dy)))]
                    else:
                        dy = dx
                        extra = [("dxy", fmt(dx))]
                    exp = expected_native(shape, box.translated(dx, dy))
                else:
                    if shape == "line":
                        continue
                    # what dw/dh do to a box is not stated by the property: only "dwh is exactly equivalent to its
                    # longhand pair" is checked, differentially against the longhand twin document
                    dw, dh = F(rng.randint(0, 40), 4), F(rng.randint(0, 40), 4)
                    if rng.random() < 0.5:
                        base = build_attrs(rng, shape, ("s", "l"), ("s", "l"), box, "alt")
                    if form == "dw-dh":
                        continue
                    elif form == "dwh2":
                        extra = [("dwh", sep_join(rng, fmt(dw), fmt(dh)))]
                        twin = [("dw", fmt(dw)), ("dh", fmt(dh))]
                    elif form == "dwh1":
                        extra = [("dwh", fmt(dw))]
                        twin = [("dw", fmt(dw)), ("dh", fmt(dw))]
                    else:
                        pct = rng.choice([50, 100, 150, 200, 25])
                        extra = [("dwh", "%d%%" % pct)]
                        twin = [("dw", "%d%%" % pct), ("dh", "%d%%" % pct)]
                    exp = {}
                    twin_doc = make_doc(shape, base + twin).encode()
                doc = make_doc(shape, base + extra)
                case = dict(input=doc.encode(), shape=shape, expected={a: fmt(v) for a, v in exp.items()},
                            sig="%s/delta-%s" % (shape, form), feats=["delta." + form, "shape." + shape])
                if not form.startswith("dx"):
                    case["twin"] = twin_doc
                check_case(ctx, case)
    # size deltas on every constraint pair: whatever dw / dh / dwh do to an element whose size follows from, say, its two
    # corners, they must do the same whether the corners are written xy1/xy2 (shorthand) or x1/y1/x2/y2 (longhand)
    for shape in SHAPES:
        for px in PAIRS:
            for py in PAIRS:
                structural += 1
                if not ctx.mine(structural):
                    continue
                for _ in range(max(2, k // 8)):
                    box = sample_box(rng, shape)
                    dw, dh = F(rng.randint(0, 40), 4), F(rng.randint(0, 40), 4)
                    delta = rng.choice([[("dwh", sep_join(rng, fmt(dw), fmt(dh)))], [("dw", fmt(dw)), ("dh", fmt(dh))], [("dwh", fmt(dw))], [("dw", fmt(dw))], [("dh", fmt(dh))],
                                        [("dwh", "%d%%" % rng.choice([50, 150, 200]))]])
                    a, b = rng.sample(["long", "alt", "short", "alt-x", "alt-y"], 2)
                    doc = make_doc(shape, build_attrs(rng, shape, px, py, box, a) + delta)
                    twin_doc = make_doc(shape, build_attrs(rng, shape, px, py, box, b) + delta)
                    case = dict(input=doc.encode(), twin=twin_doc.encode(), shape=shape, expected={},
                                sig="%s/size-delta-on-%s%s-%s%s" % (shape, px[0], px[1], py[0], py[1]), feats=["delta.size-on-pairs", "shape." + shape, "spelling.%s-vs-%s" % (a, b)])
                    check_case(ctx, case)
    # circle-specific sufficient forms: one full pair on one axis + a single anchor on the other
    for (pair_axis, px) in itertools.product("xy", PAIRS):
        for anchor in ("s", "c", "e"):
            structural += 1
            if not ctx.mine(structural):
                continue
            for _ in range(k):
                box = sample_box(rng, "circle")
                vx, vy = axis_values(box.x1, box.x2), axis_values(box.y1, box.y2)
                other = "y" if pair_axis == "x" else "x"
                vals_pair = vx if pair_axis == "x" else vy
                vals_other = vy if pair_axis == "x" else vx
                items = [(attr_name("circle", pair_axis, kd, False), fmt(vals_pair[kd])) for kd in px]
                items.append((attr_name("circle", other, anchor, False), fmt(vals_other[anchor])))
                doc = make_doc("circle", items)
                exp = expected_native("circle", box)
                case = dict(input=doc.encode(), shape="circle", expected={a: fmt(v) for a, v in exp.items()},
                            sig="circle/%s-pair-%s%s+%s" % (pair_axis, px[0], px[1], anchor), feats=["circle.pair+anchor"])
                check_case(ctx, case)
    acc.count("structural-cases-enumerated(total over shards /%d)" % ctx.nshards, structural)


def extra_coverage(acc, tier):
    return dict(exhaustive=False, structure_exhaustive=True,
                explanation="the structural space (shape x pairs x spelling, delta forms, circle forms) is enumerated completely; box values are sampled")
