"""E5: geometry reference model, written from the documentation (docs/mdbook/src/reference/layout.md,
attribute-ref.md) and the property statements - independent of svgdx's position.rs / element.rs.

Exact rational arithmetic (fractions.Fraction); inputs on a dyadic grid give exact expectations."""
from fractions import Fraction as F
import re

from . import xmlcanon

NUM = re.compile(r"^[+-]?(\d+\.?\d*|\.\d+)([eE][+-]?\d+)?$")


def fr(v):
    """exact Fraction from a decimal string / int / Fraction"""
    if isinstance(v, F):
        return v
    if isinstance(v, int):
        return F(v)
    if isinstance(v, float):
        return F(repr(v))
    s = v.strip()
    if not NUM.match(s):
        raise ValueError("not a number: %r" % v)
    return F(s)


def is_num(s):
    return s is not None and bool(NUM.match(s.strip()))


def fmt(x):
    """shortest decimal text of a dyadic Fraction (for writing inputs)"""
    x = F(x)
    if x.denominator == 1:
        return str(x.numerator)
    s = "%.6f" % float(x)
    return s.rstrip("0").rstrip(".")


class Box:
    __slots__ = ("x1", "y1", "x2", "y2")

    def __init__(self, x1, y1, x2, y2):
        self.x1, self.y1, self.x2, self.y2 = F(x1), F(y1), F(x2), F(y2)

    @property
    def w(self):
        return self.x2 - self.x1

    @property
    def h(self):
        return self.y2 - self.y1

    @property
    def cx(self):
        return (self.x1 + self.x2) / 2

    @property
    def cy(self):
        return (self.y1 + self.y2) / 2

    def tuple(self):
        return (self.x1, self.y1, self.x2, self.y2)

    def __eq__(self, o):
        return isinstance(o, Box) and self.tuple() == o.tuple()

    def __repr__(self):
        return "Box(%s, %s, %s, %s)" % tuple(fmt(v) for v in self.tuple())

    def translated(self, dx, dy):
        return Box(self.x1 + dx, self.y1 + dy, self.x2 + dx, self.y2 + dy)

    def union(self, o):
        return Box(min(self.x1, o.x1), min(self.y1, o.y1), max(self.x2, o.x2), max(self.y2, o.y2))

    def intersect(self, o):
        b = Box(max(self.x1, o.x1), max(self.y1, o.y1), min(self.x2, o.x2), min(self.y2, o.y2))
        return b if b.w >= 0 and b.h >= 0 else None

    def grow(self, t, r, b, l):
        return Box(self.x1 - l, self.y1 - t, self.x2 + r, self.y2 + b)

    # ---- locations (layout.md "Location Spec")
    def loc(self, name):
        return {
            "tl": (self.x1, self.y1), "t": (self.cx, self.y1), "tr": (self.x2, self.y1),
            "r": (self.x2, self.cy), "br": (self.x2, self.y2), "b": (self.cx, self.y2),
            "bl": (self.x1, self.y2), "l": (self.x1, self.cy), "c": (self.cx, self.cy),
        }[name]

    def edge(self, edge, offset):
        """layout.md "Edge-based LocSpec": offset = ('abs', v) or ('pct', v). Edges start at the left (t/b) or top (l/r).
        positive number: from the start; negative number: backwards from the end; percentage: along the edge."""
        kind, v = offset
        v = F(v)

        def along(a, b):
            if kind == "pct":
                return a + (b - a) * v / 100
            return (b + v) if v < 0 else (a + v)

        if edge == "t":
            return (along(self.x1, self.x2), self.y1)
        if edge == "b":
            return (along(self.x1, self.x2), self.y2)
        if edge == "l":
            return (self.x1, along(self.y1, self.y2))
        if edge == "r":
            return (self.x2, along(self.y1, self.y2))
        raise ValueError(edge)

    def point(self, spec):
        """spec: 'tl' or ('t', ('pct', 25))"""
        if isinstance(spec, str):
            return self.loc(spec)
        return self.edge(spec[0], spec[1])

    def scalar(self, kind):
        return {
            "x": self.x1, "x1": self.x1, "x2": self.x2, "cx": self.cx, "y": self.y1, "y1": self.y1, "y2": self.y2,
            "cy": self.cy, "w": self.w, "width": self.w, "h": self.h, "height": self.h, "rx": self.w / 2, "ry": self.h / 2,
            "r": max(self.w, self.h) / 2,
        }[kind]


LOCS9 = ["tl", "t", "tr", "r", "br", "b", "bl", "l", "c"]


def locspec_text(spec):
    if isinstance(spec, str):
        return spec
    edge, (kind, v) = spec
    return "%s:%s%s" % (edge, fmt(v), "%" if kind == "pct" else "")


# -------------------------------------------------------------------------------------------------
# reading geometry back from the output

def attr_num(el, name, default=None):
    v = el.attrs.get(name)
    if v is None:
        return default
    if not is_num(v):
        raise ValueError("attribute %s=%r of <%s> is not a plain number" % (name, v, el.name))
    return fr(v)


def points_of(el):
    pts = el.attrs.get("points", "")
    nums = [t for t in re.split(r"[\s,]+", pts.strip()) if t]
    vals = [fr(t) for t in nums]
    return list(zip(vals[0::2], vals[1::2]))


def out_box(el):
    """bounding box of an output element from its own native attributes (SVG semantics: missing x/y/cx/cy = 0)"""
    n = el.name
    if n in ("rect", "image", "foreignObject", "use", "svg"):
        w, h = attr_num(el, "width"), attr_num(el, "height")
        if w is None or h is None:
            return None
        x, y = attr_num(el, "x", F(0)), attr_num(el, "y", F(0))
        return Box(x, y, x + w, y + h)
    if n == "circle":
        r = attr_num(el, "r")
        if r is None:
            return None
        cx, cy = attr_num(el, "cx", F(0)), attr_num(el, "cy", F(0))
        return Box(cx - r, cy - r, cx + r, cy + r)
    if n == "ellipse":
        rx, ry = attr_num(el, "rx"), attr_num(el, "ry")
        if rx is None or ry is None:
            return None
        cx, cy = attr_num(el, "cx", F(0)), attr_num(el, "cy", F(0))
        return Box(cx - rx, cy - ry, cx + rx, cy + ry)
    if n == "line":
        x1, y1 = attr_num(el, "x1", F(0)), attr_num(el, "y1", F(0))
        x2, y2 = attr_num(el, "x2", F(0)), attr_num(el, "y2", F(0))
        return Box(min(x1, x2), min(y1, y2), max(x1, x2), max(y1, y2))
    if n in ("polyline", "polygon"):
        pts = points_of(el)
        if not pts:
            return None
        xs, ys = [p[0] for p in pts], [p[1] for p in pts]
        return Box(min(xs), min(ys), max(xs), max(ys))
    if n == "text":
        x, y = attr_num(el, "x", F(0)), attr_num(el, "y", F(0))
        return Box(x, y, x, y)
    return None


GEOM_ATTRS = {"x", "y", "x1", "y1", "x2", "y2", "cx", "cy", "r", "rx", "ry", "width", "height", "points", "transform"}
SVGDX_GEOM_ATTRS = {"xy", "cxy", "xy1", "xy2", "wh", "rxy", "dxy", "dwh", "dx", "dy", "dw", "dh", "xy-loc", "surround", "inside",
                    "margin", "start", "end", "edge-type", "corner-offset"}
NATIVE = {
    "rect": {"x", "y", "width", "height", "rx", "ry"},
    "circle": {"cx", "cy", "r"},
    "ellipse": {"cx", "cy", "rx", "ry"},
    "line": {"x1", "y1", "x2", "y2"},
    "polyline": {"points"},
    "polygon": {"points"},
    "text": {"x", "y", "dx", "dy"},
}
ALL_GEOM_NAMES = {"x", "y", "x1", "y1", "x2", "y2", "cx", "cy", "r", "rx", "ry", "width", "height"} | SVGDX_GEOM_ATTRS


def foreign_geometry_attrs(el):
    """geometry attribute names on an output element that are not native to it"""
    native = NATIVE.get(el.name)
    if native is None:
        return set()
    return {a for a in el.attrs if a in ALL_GEOM_NAMES and a not in native}


def by_id(root):
    out = {}
    for e in root.iter():
        i = e.attrs.get("id")
        if i is not None:
            out.setdefault(i, e)
    return out


def parse_out(data, fragment=True):
    return xmlcanon.parse_tree(data, fragment=fragment)


def grid(rng, lo=-40, hi=80, step=4):
    """random dyadic value: multiple of 1/step in [lo, hi]"""
    return F(rng.randint(lo * step, hi * step), step)
