"""Independent XML reader (expat; shares no code with quick-xml / svgdx).

parse_events(data)            -> canonical event list (the infoset view used by C02/C03/C05)
parse_tree(data)              -> Element tree (names, attrs, children, text)
Both accept fragment=True: several top-level elements / text allowed (wrapped in a dummy root).
"""
import re
from xml.parsers import expat


class XMLError(Exception):
    pass


_PROLOG = re.compile(
    rb'^(\xef\xbb\xbf)?\s*(<\?xml\s[^?]*\?>)?(\s|<!--.*?-->|<\?(?!xml\s).*?\?>)*'
    rb'(<!DOCTYPE[^>\[]*(\[.*?\])?\s*>)?', re.S)

WRAP = "verif-fragment-root"


def _make_parser(events):
    p = expat.ParserCreate()  # namespace processing off
    p.buffer_text = True
    p.ordered_attributes = True
    state = {"cdata": False}

    def start(name, attrs):
        d = {}
        for i in range(0, len(attrs), 2):
            d[attrs[i]] = attrs[i + 1]
        events.append(("start", name, d))

    def end(name):
        events.append(("end", name))

    def chars(data):
        if events and events[-1][0] == "chars":
            events[-1] = ("chars", events[-1][1] + data, events[-1][2] or state["cdata"])
        else:
            events.append(("chars", data, state["cdata"]))

    def comment(data):
        events.append(("comment", data))

    def pi(target, data):
        events.append(("pi", target, data))

    def doctype(name, sysid, pubid, has_internal):
        events.append(("doctype", name, sysid, pubid, bool(has_internal)))

    def scd():
        state["cdata"] = True

    def ecd():
        state["cdata"] = False
        # an empty CDATA section produces no chars event; nothing to do

    p.StartElementHandler = start
    p.EndElementHandler = end
    p.CharacterDataHandler = chars
    p.CommentHandler = comment
    p.ProcessingInstructionHandler = pi
    p.StartDoctypeDeclHandler = doctype
    p.StartCdataSectionHandler = scd
    p.EndCdataSectionHandler = ecd
    return p


def parse_events(data, fragment=False):
    """Return the canonical event list; raise XMLError when not well-formed.
    With fragment=True the content may have several top-level nodes."""
    if isinstance(data, str):
        data = data.encode("utf-8")
    try:
        data.decode("utf-8")
    except UnicodeDecodeError as e:
        raise XMLError("not UTF-8: %s" % e)
    events = []
    p = _make_parser(events)
    try:
        p.Parse(data, True)
        return events
    except expat.ExpatError as e:
        if not fragment:
            raise XMLError(str(e))
    # fragment: keep the prolog, wrap the rest
    m = _PROLOG.match(data)
    cut = m.end() if m else 0
    wrapped = data[:cut] + b"<" + WRAP.encode() + b">" + data[cut:] + b"</" + WRAP.encode() + b">"
    events = []
    p = _make_parser(events)
    try:
        p.Parse(wrapped, True)
    except expat.ExpatError as e:
        raise XMLError("%s" % e)
    out = [ev for ev in events if not (ev[0] in ("start", "end") and ev[1] == WRAP)]
    return out


def well_formed(data, fragment=False):
    try:
        parse_events(data, fragment)
        return True
    except XMLError:
        return False


class Element:
    __slots__ = ("name", "attrs", "children", "parent")

    def __init__(self, name, attrs):
        self.name = name
        self.attrs = attrs
        self.children = []   # Element | str (text) | ("comment", s) | ("pi", t, d)
        self.parent = None

    def elements(self):
        return [c for c in self.children if isinstance(c, Element)]

    def text(self):
        """concatenated character data of this element's direct text children"""
        return "".join(c for c in self.children if isinstance(c, str))

    def all_text(self):
        out = []
        for c in self.children:
            if isinstance(c, str):
                out.append(c)
            elif isinstance(c, Element):
                out.append(c.all_text())
        return "".join(out)

    def iter(self):
        yield self
        for c in self.children:
            if isinstance(c, Element):
                yield from c.iter()

    def find_all(self, name):
        return [e for e in self.iter() if e.name == name]

    def classes(self):
        return self.attrs.get("class", "").split()

    def __repr__(self):
        return "<%s %s>" % (self.name, " ".join('%s="%s"' % kv for kv in self.attrs.items()))


def events_to_tree(events):
    """Build a tree under a synthetic root named '#root'."""
    root = Element("#root", {})
    cur = root
    for ev in events:
        k = ev[0]
        if k == "start":
            e = Element(ev[1], ev[2])
            e.parent = cur
            cur.children.append(e)
            cur = e
        elif k == "end":
            cur = cur.parent if cur.parent is not None else root
        elif k == "chars":
            cur.children.append(ev[1])
        elif k == "comment":
            cur.children.append(("comment", ev[1]))
        elif k == "pi":
            cur.children.append(("pi", ev[1], ev[2]))
    return root


def parse_tree(data, fragment=False):
    return events_to_tree(parse_events(data, fragment))


def infoset(events, keep_ws_only_text=True):
    """Normalise an event list for infoset comparison: attribute dicts (order free),
    coalesced chars (CDATA and text alike)."""
    out = []
    for ev in events:
        if ev[0] == "chars":
            if not keep_ws_only_text and not ev[1].strip():
                continue
            if out and out[-1][0] == "chars":
                out[-1] = ("chars", out[-1][1] + ev[1])
            else:
                out.append(("chars", ev[1]))
        elif ev[0] == "doctype":
            out.append(("doctype", ev[1], ev[2], ev[3]))
        else:
            out.append(ev)
    return out


def first_diff(a, b):
    n = min(len(a), len(b))
    for i in range(n):
        if a[i] != b[i]:
            return i, a[i], b[i]
    if len(a) != len(b):
        return n, (a[n] if len(a) > n else None), (b[n] if len(b) > n else None)
    return None
