"""C01 Totality: every input gives a result or an error, never a crash or a hang.

Process-level monitor over four workload streams (DESIGN.md section 4, C01):
 1 parametric shape sweeps   2 bounded-exhaustive scanner strings
 3 hostile function arguments 4 structure-aware mutation of the shared corpus
Every job runs in the hook-enabled worker on a 2 MiB stack (the smallest stack a shipped
front-end gives the library); sweeps and a sample of the rest also go through the release CLI
and the release server.
"""
import itertools
import os
import re

from . import core, corpus, frontends

LEVEL = "exploration"
TECHNIQUE = "process-level runtime monitor (catch_unwind + panic hook, exit signal, hook-counter watchdog, scanner progress hook) over sweep / bounded-exhaustive / mutation workloads, through library, CLI and server"
LEVEL_TEXT = ("Held on the executions observed: no panic, abort, non-advancing scanner loop or super-quadratic evaluation count on "
              "~3.5e5 (quick) inputs covering every recursion and scanner named in the property, at the smallest shipped stack "
              "size, plus the same through the release CLI and server for the sweeps and a sample. Exploration is the right level: "
              "the quantifier is over all byte strings, which only sampling and bounded enumeration can reach with an execution oracle.")
LEVEL_NOTE = ("Trusted: the worker build (opt-level=s, assertions on) has frames no smaller than the shipped binaries' by an order of "
              "magnitude; 'never loops forever' is restated as bounded progress (hook counters); inputs not generated are not covered; "
              "watch mode and wasm entry point are not driven.")
NEEDS_FRONTENDS = True
BUDGET_S = {"quick": 240, "thorough": 2400}
FLOOR = {"quick": 200, "thorough": 5000}
RULE = ("inputs come from 4 seeded streams (parametric sweeps of every recursion/scan, bounded-exhaustive "
        "token strings for the hand-written scanners bare and after a valid prefix, 53 built-ins x hostile "
        "argument tuples, structure-aware mutants of the repository's own documents); a case is non-trivial "
        "when the real code went beyond XML reading (elem_evals>=1 or an expression/scanner hook fired); "
        "distinct = distinct hash of input bytes + configuration")
ASSUMPTIONS = [
    "worker stack 2 MiB (tokio worker default) with opt-level=s, debug assertions and overflow checks on",
    "hangs are decided on hook counters (scanner progress, elem_evals budget), never on wall-clock; the 60 s "
    "wall-clock watchdog only yields 'inconclusive'",
    "inputs that set loop-limit/var-limit/depth-limit from inside the document are not generated "
    "(the quantifier is limits <= defaults)",
]

STACK = 2048
TAG = re.compile(rb"<[A-Za-z_]")
LIMIT_WORDS = re.compile(rb"(loop|var|depth)-limit")
AMPLIFIER = re.compile(rb"<(loop|for|reuse|use)\b")


# ------------------------------------------------------------------------------------------
# oracle

def msg_class(msg):
    m = re.sub(r"\[[^\]]*\]?", "[..]", msg or "")
    m = re.sub(r"-?(NaN|inf|[0-9]+(\.[0-9]+)?(e-?[0-9]+)?)", "N", m)
    m = re.sub(r"'[^']*'|\"[^\"]*\"|`[^`]*`", "S", m)
    return m[:60]


def panic_signature(r):
    msg = r.get("msg") or ""
    if msg.startswith("VERIF-NOPROGRESS"):
        return "noprogress@" + msg.split()[-1]
    loc = r.get("loc") or "?"
    m = re.search(r"\[([^\]]+)\]", loc)
    fn = m.group(1) if m else None
    f = re.search(r"(?:/repo/)?(src/[\w/]+\.rs)", loc)
    where = (f.group(1) if f else "?") + (":" + fn if fn else "")
    if not fn:
        # panic raised directly in svgdx code: keep the line, it names the expect()/unwrap() site
        m2 = re.search(r"(src/[\w/]+\.rs:\d+)", loc)
        if m2:
            where = m2.group(1)
    return "panic@%s:%s" % (where, msg_class(msg))


def n_elements(data):
    return len(TAG.findall(data))


def eval_budget(data, cfg):
    """Upper bound on element evaluations for an input that is 'proportional to the work the document asks for':
    10*(n_el*(1+L)+16)^2 where L bounds the loop iterations the document may execute."""
    n_el = n_elements(data) + 1
    ll = (cfg or {}).get("loop", 1000)
    # iterations each loop may run: the literal count / number of data items where the document spells it out, else the loop limit
    iters = []
    for m in re.finditer(rb"<(loop|for)\b([^>]*)>", data):
        a = m.group(2)
        c = re.search(rb'\bcount="(\d{1,6})"', a)
        dd = re.search(rb'\bdata="([^"{$#]*)"', a)
        if m.group(1) == b"loop" and c:
            iters.append(min(int(c.group(1)), ll) + 1)
        elif m.group(1) == b"for" and dd:
            iters.append(len(re.split(rb"[,\s]+", dd.group(1).strip())) + 1)
        else:
            iters.append(ll + 1)
    amp = 1
    for n in sorted(iters, reverse=True)[:3]:
        amp = min(amp * n, 10 ** 6)
    reuse = len(re.findall(rb"<(reuse|use)\b", data))
    if reuse:
        amp *= min(2 ** min(reuse, 10), 1024)
    return 10 * (n_el * (1 + amp) + 16) ** 2


def judge(ctx, case, r, via="worker"):
    """Turn a worker Result into violations. Returns the signature or None."""
    acc = ctx.acc
    data = case["input"]
    st = r.status
    if st == "panic":
        sig = panic_signature(r)
        acc.violation("panic" if not sig.startswith("noprogress") else "no-progress", sig, case,
                      observed=dict(loc=r.loc, msg=r.msg), expected="Ok or Err",
                      what="%s: %s at %s" % (via, r.msg, r.loc))
        return sig
    if st == "died":
        fam = case.get("fam") or "mutant"
        sig = "abort:sig%s@%s" % (r.sig if r.sig else "rc%s" % r.rc, fam)
        acc.violation("abort", sig, case, observed=dict(signal=r.sig, rc=r.rc),
                      expected="Ok or Err", what="%s process died (signal %s) in family %s" % (via, r.sig, fam))
        return sig
    if st == "stall":
        # two-strike rule: confirm in a second, solitary run on a fresh worker
        w2 = core.Worker(wall_s=120)
        try:
            r2 = w2.run(data, case.get("cfg"), api="probe", stack_kib=STACK)
        finally:
            w2.close()
        if r2.status != "stall":
            acc.inconc("stall-not-reproduced")
            acc.notes.append("stall not reproduced: family %s d=%s second=%s" % (case.get("fam"), case.get("d"), r2.status))
            return None
        fam = case.get("fam") or "mutant"
        sig = "hang:no-hook-progress@%s" % fam
        acc.violation("hang", sig, case, observed=dict(cpu_ms_without_progress=r.get("cpu_ms_without_progress"), elem_evals=r.elem_evals, expr_evals=r.expr_evals),
                      expected="Ok or Err", what="the job burnt %s ms of CPU without reaching any hook (element / expression evaluation, retry pass, loop iteration, "
                      "scanner step), twice: it is spinning" % r.get("cpu_ms_without_progress"))
        return sig
    if st == "blowup":
        fam = case.get("fam") or ""
        sig = "blowup@" + ("recursion-branching" if fam.startswith("cycle.") else "nested-retries" if case.get("nested") else "flat")
        acc.violation("blow-up", sig, case, observed=dict(elem_evals=r.elem_evals, expr_evals=r.expr_evals, budget=r.max),
                      expected="<= budget", what="element evaluations exceeded 10*(n_el*(1+L)+16)^2 before completion")
        return sig
    if st in ("ok", "err"):
        c = r.get("ctr") or {}
        n_el = n_elements(data) + 1
        n_out = n_elements(r.out) if st == "ok" else 0
        li = c.get("loop_iters", 0)
        bound = 10 * (n_el * (1 + li) + n_out + 16) ** 2
        if c.get("elem_evals", 0) > bound:
            nested = c.get("depth_max", 0) >= 4 and case.get("nested")
            sig = "blowup@" + ("nested-retries" if nested else "flat")
            acc.violation("blow-up", sig, case,
                          observed=dict(elem_evals=c.get("elem_evals"), retry_passes=c.get("retry_passes"),
                                        loop_iters=li, n_el=n_el, n_out=n_out, depth_max=c.get("depth_max")),
                          expected="elem_evals <= %d" % bound,
                          what="completed, but element evaluations are super-quadratic in the declared work")
            return sig
    return None


def nontrivial(r):
    c = r.get("ctr") or {}
    return bool(c.get("elem_evals") or c.get("expr_evals") or c.get("scanner_steps")) or r.crashed


def nested_forward_ref(data, min_depth=3):
    """Does the input contain the mechanism of the known finding blowup@nested-retries: an element reference (#id) to an
    id that is defined later in the document (or never), written inside >= min_depth nested container elements?
    Only such inputs may be signed 'nested-retries'; any other blow-up gets its own signature."""
    try:
        text = data.decode("utf-8", "replace")
    except Exception:
        return False
    defs = {}
    for m in re.finditer(r'\bid="([^"]+)"', text):
        defs.setdefault(m.group(1), m.start())
    depth = 0
    pos_depth = []
    for m in re.finditer(r"<(/?)(g|svg|defs|a|symbol|if|loop|for|specs|clipPath|marker|pattern|mask|switch)\b[^>]*?(/?)>", text):
        if m.group(1):
            depth = max(0, depth - 1)
        elif not m.group(3):
            depth += 1
        pos_depth.append((m.end(), depth))
    import bisect
    ends = [p for p, _ in pos_depth]
    for m in re.finditer(r"#([A-Za-z_][\w-]*)", text):
        i = bisect.bisect_right(ends, m.start()) - 1
        d = pos_depth[i][1] if i >= 0 else 0
        # nested at least min_depth deep below the root <svg>
        if d - 1 >= min_depth and defs.get(m.group(1), 1 << 60) > m.start():
            return True
    return False


def check_case(ctx, case):
    acc = ctx.acc
    data = case["input"]
    cfg = case.get("cfg")
    acc.cases += 1
    nested = nested_forward_ref(data)
    case["nested"] = nested
    r = ctx.run(data, cfg, api="probe", stack_kib=STACK, max_evals=eval_budget(data, cfg))
    sig = judge(ctx, case, r)
    if nontrivial(r):
        acc.nontriv(core.chash(data, core.encode_cfg(cfg)), ["stream." + case.get("stream", "?"), "status." + r.status])
    if case.get("also_str"):
        try:
            data.decode("utf-8")
            r2 = ctx.run(data, cfg, api="str", stack_kib=STACK, max_evals=eval_budget(data, cfg))
            if sig is None:
                judge(ctx, dict(case, api="str"), r2, via="transform_str")
            acc.count("api.str")
        except UnicodeDecodeError:
            pass
    if case.get("frontends") and r.status != "wallclock" and not (sig or "").startswith(("noprogress", "blowup", "hang")):
        run_frontends(ctx, case, sig)
    return r


# ------------------------------------------------------------------------------------------
# front-ends

def _fe(ctx):
    fe = getattr(ctx, "_fe", None)
    if fe is None:
        fe = {"dir": frontends.scratch_dir("c01"), "server": None}
        ctx._fe = fe
    return fe


def close_frontends(ctx):
    fe = getattr(ctx, "_fe", None)
    if fe:
        if fe["server"]:
            fe["server"].stop()
        frontends.rm(fe["dir"])
        ctx._fe = None


def run_frontends(ctx, case, worker_sig):
    acc = ctx.acc
    fe = _fe(ctx)
    data, cfg = case["input"], case.get("cfg")
    fam = case.get("fam") or case.get("stream")
    # --- CLI: stdin -> stdout
    res = frontends.run_cli(core.cli_args(cfg), stdin=data, timeout=150)
    acc.evaluations += 1
    acc.count("fe.cli")
    if res.timed_out:
        acc.inconc("cli-wallclock")
    elif res.rc not in (0, 1):
        sig = worker_sig or ("cli-only:rc%s@%s" % (res.rc, fam))
        acc.violation("cli-crash", sig, dict(case, via="cli"),
                      observed=dict(rc=res.rc, stderr=core.trunc(res.err, 300)), expected="exit status 0 or 1",
                      what="svgdx command ended with status %s" % res.rc)
    elif res.rc == 1 and not res.err.strip():
        acc.violation("cli-silent-failure", "cli-only:silent-failure", dict(case, via="cli"),
                      observed=dict(rc=1, stderr=""), expected="a message on stderr")
    # --- CLI: file -> file (every 4th)
    if case.get("fe_files"):
        ip = os.path.join(fe["dir"], "in.xml")
        op = os.path.join(fe["dir"], "out.svg")
        open(ip, "wb").write(data)
        res = frontends.run_cli(core.cli_args(cfg) + [ip, "-o", op], timeout=150)
        acc.evaluations += 1
        acc.count("fe.cli-file")
        if not res.timed_out and res.rc not in (0, 1):
            sig = worker_sig or ("cli-only:rc%s@%s" % (res.rc, fam))
            acc.violation("cli-crash", sig, dict(case, via="cli-file"),
                          observed=dict(rc=res.rc, stderr=core.trunc(res.err, 300)), expected="exit status 0 or 1")
        for p in (ip, op):
            try:
                os.unlink(p)
            except OSError:
                pass
    # --- server (default configuration only: that is all the endpoint can express)
    if cfg and any(k != "meta" for k in cfg):
        return
    srv = fe["server"]
    if srv is None or not srv.alive():
        srv = frontends.Server()
        srv.start()
        fe["server"] = srv
    status, ct, body, note = srv.post(data, add_metadata=bool(cfg and cfg.get("meta")), timeout=150)
    acc.evaluations += 1
    acc.count("fe.server")
    if note == "timeout":
        acc.inconc("server-wallclock")
        srv.stop()
        return
    bad = None
    if status is None:
        bad = "connection closed without an HTTP status (%s)" % note
    elif status not in (200, 400, 413):
        bad = "HTTP status %s" % status
    alive = srv.alive() and srv.probe()
    if not alive:
        bad = (bad + "; " if bad else "") + "server process gone / not answering afterwards (exit %s)" % srv.exit_code()
        srv.stop()
        fe["server"] = None
    if bad:
        sig = worker_sig or ("server-only:%s@%s" % ("died" if not alive else "closed", fam))
        acc.violation("server-crash", sig, dict(case, via="server"), observed=bad,
                      expected="HTTP 200/400 and a live server", what="POST /api/transform: " + bad)


# ------------------------------------------------------------------------------------------
# stream 1: sweeps

def doc(body):
    return "<svg>\n" + body + "\n</svg>"


def nest(open_tag, close_tag, d, inner='<rect wh="1"/>'):
    return open_tag * d + inner + close_tag * d


def sweep_families(tier):
    """yield (family, d, document, nested?)"""
    big = [1, 10, 100, 1000, 10000] + ([100000] if tier == "thorough" else [])
    mid = [1, 10, 100, 1000] + ([5000] if tier == "thorough" else [])
    deep = [1, 10, 50, 99, 100, 101, 150, 300, 1000] + ([10000] if tier == "thorough" else [])
    for d in big:
        e = {
            "expr.paren": "(" * d + "1" + ")" * d,
            "expr.unary-minus": "-" * d + "1",
            "expr.func-nest": "abs(" * d + "1" + ")" * d,
            "expr.comma-list": ",".join(["1"] * d),
            "expr.add-chain": "+".join(["1"] * d),
            "expr.mul-chain": "*".join(["1.0001"] * d),
            "expr.cmp-chain": " lt ".join(["1"] * d),
            "expr.and-chain": " and ".join(["1"] * d),
            "expr.string-long": "'" + "a" * d + "'",
            "expr.open-only": "(" * d,
            "expr.close-only": ")" * d,
            "expr.list-nest": "(1," * d + "1" + ")" * d,
            "expr.max-many": "max(" + ",".join(["1"] * d) + ")",
        }
        for fam, ex in e.items():
            yield fam, d, doc('<rect wh="{{%s}}"/>' % ex), False
        yield "expr.brace-open", d, doc('<rect wh="%s"/>' % ("{{" * d)), False
        yield "expr.brace-close", d, doc('<rect wh="%s"/>' % ("}}" * d)), False
        yield "expr.brace-unbalanced", d, doc('<rect wh="%s"/>' % ("{{1" * d)), False
        yield "expr.many-exprs", d, doc('<text text="%s"/>' % ("{{1+1}}" * d)), False
        yield "expr.in-text", d, doc('<text text="{{%s}}"/>' % ("(" * d + "1" + ")" * d)), False
        yield "expr.in-if", d, doc('<if test="%s"><rect wh="1"/></if>' % ("(" * d + "1" + ")" * d)), False
        yield "expr.in-loop-count", d, doc('<loop count="{{%s}}"><rect wh="1"/></loop>' % ("-" * (2 * (d // 2)) + "1")), False
        yield "var.dollar-run", d, doc('<rect wh="%s"/>' % ("$" * d)), False
        yield "var.brace-run", d, doc('<rect wh="%s"/>' % ("${" * d)), False
        yield "attr.long-value", d, doc('<rect wh="1" fill="%s"/>' % ("x" * (10 * d))), False
        yield "text.long", d, doc('<rect wh="1" text="%s"/>' % ("word " * d)), False
        yield "text.many-lines", d, doc('<rect wh="1" text="%s"/>' % ("l\\n" * d)), False
        yield "path.long", d, doc('<path d="M0 0%s"/>' % (" L1 1" * d)), False
        yield "path.many-z", d, doc('<path d="M0 0%s"/>' % (" z" * d)), False
        yield "path.implicit-repeat", d, doc('<path d="M0 0 L%s"/>' % (" 1 1" * d)), False
        yield "path.bearing-long", d, doc('<path d="M0 0%s"/>' % (" b10 h1" * d)), False
        yield "points.long", d, doc('<polyline points="%s"/>' % (" 1,1" * d)), False
        yield "transform.long", d, doc('<g transform="%s"><rect wh="1"/></g>' % ("translate(1) " * d)), False
        yield "class.many", d, doc('<rect wh="1" class="%s"/>' % " ".join("c%d" % i for i in range(d))), False
        yield "margin.many", d, doc('<rect id="a" wh="1"/><rect surround="#a" margin="%s"/>' % ("1 " * d)), False
        yield "surround.many", d, doc('<rect id="a" wh="1"/><rect surround="%s"/>' % ("#a " * d)), False
    # every level refers to the next one twice (thrice): d + 1 elements ask for one addition each, not for 2^d expansions; the
    # chain stays below the expression nesting limit, so only a bound on the expansions themselves can stop it
    for d in (5, 20, 30, 45, 60, 63):
        for b, fam in ((2, "var.chain-branching"), (3, "var.chain-branching3")):
            yield fam, d, doc("".join('<var v%d="%s"/>' % (i, " + ".join(["$v%d" % (i + 1)] * b)) for i in range(d)) +
                              '<var v%d="1"/><rect wh="{{$v0}}"/>' % d), False
        yield "var.chain-branching-fn", d, doc("".join('<var v%d="max($v%d, $v%d)"/>' % (i, i + 1, i + 1) for i in range(d)) +
                                               '<var v%d="1"/><text text="{{$v0}}"/>' % d), False
    for d in mid:
        yield "attr.many", d, doc("<rect wh=\"1\" %s/>" % " ".join('a%d="1"' % i for i in range(d))), False
        yield "siblings.rect", d, doc('<rect wh="1"/>' * d), False
        yield "siblings.text", d, doc('<text xy="0">t</text>' * d), False
        yield "siblings.g", d, doc('<g><rect wh="1"/></g>' * d), False
        yield "siblings.defs", d, doc('<defs><rect wh="1"/></defs>' * d), False
        yield "prev-chain", d, doc('<rect wh="1"/>' + '<rect xy="^|h" wh="1"/>' * d), False
        yield "ref-chain.forward-order", d, doc('<rect id="r0" wh="2"/>' + "".join(
            '<rect id="r%d" xy="#r%d|h" wh="2"/>' % (i + 1, i) for i in range(d))), False
        yield "var.chain", d, doc("".join('<var v%d="$v%d"/>' % (i, i + 1) for i in range(d)) +
                                  '<var v%d="1"/><rect wh="{{$v0}}"/>' % d), False
        yield "var.chain-expr", d, doc("".join('<var v%d="$v%d+1"/>' % (i, i + 1) for i in range(d)) +
                                       '<var v%d="1"/><rect wh="{{$v0}}"/>' % d), False
        yield "loop.count", d, doc('<loop count="%d"><rect wh="1"/></loop>' % d), False
        yield "loop.count-over-limit", d, doc('<loop count="%d"><rect wh="1"/></loop>' % (d + 1000)), False
        yield "for.data", d, doc('<for var="i" data="%s"><rect wh="1"/></for>' % ",".join(["1"] * d)), False
        yield "var.grow", d, doc('<var a="xx"/><loop count="%d"><var a="$a$a"/></loop><text text="$a"/>' % d), False
        yield "reuse.chain", d, doc('<specs><g id="t0"><rect wh="1"/></g>' + "".join(
            '<g id="t%d"><reuse href="#t%d"/></g>' % (i + 1, i) for i in range(d)) +
            '</specs><reuse href="#t%d"/>' % d), False
        yield "use.chain", d, doc('<rect id="u0" wh="1"/>' + "".join(
            '<use id="u%d" href="#u%d"/>' % (i + 1, i) for i in range(d))), False
        yield "use.chain-reversed", d, doc("".join(
            '<use id="u%d" href="#u%d"/>' % (i + 1, i) for i in reversed(range(d))) + '<rect id="u0" wh="1"/>'), False
        yield "clip.chain", d, doc("".join(
            '<clipPath id="c%d" clip-path="url(#c%d)"><rect wh="1"/></clipPath>' % (i, i + 1) for i in range(d)) +
            '<clipPath id="c%d"><rect wh="1"/></clipPath><rect wh="5" clip-path="url(#c0)"/>' % d), False
        yield "clip.chain-on-rect", d, doc("".join(
            '<rect id="c%d" wh="3" clip-path="url(#k%d)"/><clipPath id="k%d"><rect wh="1" clip-path="url(#k%d)"/></clipPath>'
            % (i, i, i, i + 1) for i in range(d)) + '<clipPath id="k%d"><rect wh="1"/></clipPath>' % d), False
    # cycles and self-references (size-free)
    cyc = {
        "cycle.var": '<var a="$b"/><var b="$a"/><rect wh="{{$a}}"/>',
        "cycle.var-self": '<var a="$a"/><rect wh="{{$a}}"/>',
        "cycle.var-self-expr": '<var a="{{$a+1}}"/><rect wh="{{$a}}"/>',
        "cycle.reuse": '<g id="a"><reuse href="#b"/></g><g id="b"><reuse href="#a"/></g>',
        "cycle.reuse-self": '<g id="a"><reuse href="#a"/></g>',
        "cycle.reuse-self-leaf": '<reuse id="a" href="#a"/>',
        "cycle.use": '<use id="a" href="#b"/><use id="b" href="#a"/>',
        "cycle.use-self": '<use id="a" href="#a"/>',
        "cycle.use-prev-noid": '<rect wh="2"/><use href="^" x="3"/><rect xy="^|h" wh="1"/>',
        "cycle.use-prev-noid-chain": '<rect wh="2"/><use href="^" x="3"/><use href="^" x="6"/><use href="^" x="9"/>',
        "cycle.reuse-prev-noid": '<rect wh="2"/><reuse href="^" x="3"/><reuse href="^" x="6"/><rect xy="^|v" wh="1"/>',
        "cycle.use-prev-first": '<use href="^"/><rect xy="^|h" wh="1"/>',
        "cycle.use-prev-in-loop": '<rect wh="2"/><loop count="3"><use href="^" x="3"/></loop><circle cxy="^@c" r="1"/>',
        "cycle.use-relpos": '<use id="a" href="#b" xy="#b|h"/><use id="b" href="#a" xy="#a|h"/>',
        "cycle.clip-self": '<clipPath id="c" clip-path="url(#c)"><rect wh="1"/></clipPath><rect wh="2" clip-path="url(#c)"/>',
        "cycle.clip-self-alone": '<clipPath id="c" clip-path="url(#c)"><rect wh="1"/></clipPath>',
        "cycle.clip-pair": '<clipPath id="c" clip-path="url(#d)"><rect wh="1"/></clipPath>'
                           '<clipPath id="d" clip-path="url(#c)"><rect wh="1"/></clipPath><rect wh="2" clip-path="url(#c)"/>',
        "cycle.clip-rect-self": '<rect id="r" wh="2" clip-path="url(#r)"/>',
        "cycle.ref": '<rect id="a" xy="#b|h" wh="1"/><rect id="b" xy="#a|h" wh="1"/>',
        "cycle.ref-self": '<rect id="a" xy="#a|h" wh="1"/>',
        "cycle.surround-self": '<rect id="a" surround="#a"/>',
        "cycle.surround-pair": '<rect id="a" surround="#b"/><rect id="b" surround="#a"/>',
        "cycle.wh": '<rect id="a" wh="#b"/><rect id="b" wh="#a"/>',
        "cycle.connector": '<line id="a" start="#b" end="#b"/><line id="b" start="#a" end="#a"/>',
        "cycle.while-true": '<loop while="1"><rect wh="1"/></loop>',
        "cycle.until-false": '<loop until="0"><rect wh="1"/></loop>',
        "cycle.while-nested": '<loop while="1"><loop while="1"><rect wh="1"/></loop></loop>',
        "cycle.defaults-self": '<defaults><rect wh="{{$a}}"/></defaults><var a="$a"/><rect/>',
    }
    for fam, body in cyc.items():
        yield fam, 0, doc(body), False
    # branching self-recursion (2^depth-limit instantiations unless the recursion itself is detected)
    for fam, body in {
        "cycle.reuse-self-double": '<g id="a"><rect wh="1"/><reuse href="#a"/><reuse href="#a"/></g>',
        "cycle.reuse-self-double-specs": '<specs><g id="a"><reuse href="#a"/><reuse href="#a"/></g></specs><reuse href="#a"/>',
        "cycle.reuse-pair-double": '<specs><g id="a"><reuse href="#b"/><reuse href="#b"/></g><g id="b"><reuse href="#a"/><reuse href="#a"/></g></specs><reuse href="#a"/>',
        "cycle.reuse-self-in-loop": '<specs><g id="a"><loop count="3"><reuse href="#a"/></loop></g></specs><reuse href="#a"/>',
    }.items():
        yield fam, 0, doc(body), True
    # recursion that only the depth limit stops, next to a sibling that fails for an ordinary reason in the same pass: the limit
    # error arrives mixed with other errors and must still be final (otherwise every level retries: 2^depth-limit)
    bad = '<rect xy="#nope|h" wh="2"/>'
    for fam, body in {
        "cycle.reuse-self+failing-sibling-before": '<g id="a">\n%s\n<reuse href="#a"/>\n</g>' % bad,
        "cycle.reuse-self+failing-sibling-after": '<g id="a">\n<reuse href="#a"/>\n%s\n</g>' % bad,
        "cycle.reuse-param+failing-sibling-specs": '<specs>\n<g id="t">\n%s\n<reuse href="$next"/>\n</g>\n</specs>\n<reuse href="#t" next="#t"/>' % bad,
        "cycle.reuse-param+failing-sibling-body": '<g id="t" next="#t">\n%s\n<reuse href="$next"/>\n</g>' % bad,
        "cycle.reuse-pair+failing-sibling": '<g id="a">\n%s\n<reuse href="#b"/>\n</g>\n<g id="b">\n<reuse href="#a"/>\n<circle r="{{$undefined}}"/>\n</g>' % bad,
        "cycle.nest+failing-sibling": "".join('<g>\n%s\n' % bad for _ in range(110)) + "</g>" * 110,
        "cycle.reuse-self+failing-sibling-in-loop": '<g id="a">\n<loop count="2">%s</loop>\n<reuse href="#a"/>\n</g>' % bad,
    }.items():
        yield fam, 0, doc(body), True
    # a limit lowered in mid-document by a <config> element that itself sits deeper than (or at) the new limit, followed by
    # content that can only be stopped by that limit
    runaway = {
        "reuse-self": '<g id="a"><rect wh="1"/><reuse href="#a"/></g>',
        "reuse-pair": '<g id="a"><reuse href="#b"/></g><g id="b"><reuse href="#a"/></g>',
        "reuse-self-specs": '<specs><g id="a"><rect wh="1"/><reuse href="#a"/></g></specs><reuse href="#a"/>',
        "nest-20": nest("<g>", "</g>", 20),
        "while-true": '<loop while="1"><rect wh="1"/></loop>',
        "var-grow": '<var a="xx"/><loop count="40"><var a="$a$a"/></loop><text text="$a"/>',
    }
    for k in (0, 1, 2, 3, 5):
        for N in (0, 1, 2, 3, 4):
            for name, body in runaway.items():
                lim = {"while-true": "loop-limit", "var-grow": "var-limit"}.get(name, "depth-limit")
                yield "limit-lowered.%s" % name, 10 * k + N, "<svg>" + "<g>" * k + '<config %s="%d"/>' % (lim, N) + body + "</g>" * k + "</svg>", True
                if k:
                    # ... or content that follows the group holding the <config>
                    yield "limit-lowered-sibling.%s" % name, 10 * k + N, "<svg>" + "<g>" * k + '<config %s="%d"/>' % (lim, N) + "</g>" * k + body + "</svg>", True
    # XML nesting of every container kind
    kinds = {
        "g": ("<g>", "</g>"), "svg": ("<svg>", "</svg>"), "defs": ("<defs>", "</defs>"),
        "a": ('<a href="x">', "</a>"), "text": ("<text>", "</text>"), "tspan": ("<tspan>", "</tspan>"),
        "if": ('<if test="1">', "</if>"), "loop": ('<loop count="1">', "</loop>"),
        "for": ('<for var="i" data="1">', "</for>"), "specs": ("<specs>", "</specs>"),
        "symbol": ("<symbol>", "</symbol>"), "linearGradient": ("<linearGradient>", "</linearGradient>"),
        "clipPath": ("<clipPath>", "</clipPath>"), "g-transform": ('<g transform="translate(1)">', "</g>"),
        "g-attrs": ('<g k="{{$k+1}}">', "</g>"), "g-attrs-double": ('<g a="x$a$a">', "</g>"), "unknown": ("<zzz>", "</zzz>"),
        "rect-with-content": ('<rect wh="1">', "</rect>"),
    }
    for k, (o, c) in kinds.items():
        for d in deep:
            yield "nest." + k, d, "<svg>" + nest(o, c, d) + "</svg>", True
    for d in deep:
        yield "nest.mixed", d, "<svg>" + "".join(["<g>", '<if test="1">', '<loop count="1">', "<defs>"][i % 4] for i in range(d)) + \
            '<rect wh="1"/>' + "".join(["</g>", "</if>", "</loop>", "</defs>"][i % 4] for i in reversed(range(d))) + "</svg>", True
        yield "nest.unclosed", d, "<svg>" + "<g>" * d, True
        yield "nest.unopened", d, "<svg>" + "</g>" * d + "</svg>", True
    # reference chains written backwards (quadratic retries) and nested inside groups (multiplicative)
    for d in [2, 10, 50, 100] + ([300] if tier == "thorough" else []):
        yield "ref-chain.reversed", d, doc("".join(
            '<rect id="r%d" xy="#r%d|h" wh="2"/>' % (i + 1, i) for i in reversed(range(d))) + '<rect id="r0" wh="2"/>'), False
    for d in [2, 4, 8, 12, 16] + ([6, 10, 14, 18] if tier == "thorough" else []):
        inner = '<rect wh="1"/><rect xy="#z|h" wh="1"/>'
        body = ""
        for _ in range(d):
            body = "<g>" + inner + body + "</g>"
        yield "ref-chain.nested-groups", d, doc(body + '<rect id="z" wh="1"/>'), True
    for d in [1, 10, 100]:
        yield "loop.nested3", d, doc(nest('<loop count="%d">' % d, "</loop>", 3)), False


# ------------------------------------------------------------------------------------------
# stream 2: bounded-exhaustive scanner strings

SCANNERS = {
    # name: (alphabet, valid prefixes, template with %s)
    "path": (["M", "L", "H", "V", "Z", "z", "C", "A", "m", "l", "1", "-2", ".5", "1e1", ",", " ", "x", "é", "#a@c"],
             ["", "M0 0 ", "M0 0 L"], '<rect id="a" wh="5"/><path d="%s"/>'),
    "bearing": (["M", "B", "b", "h", "v", "l", "m", "Z", "z", "L", "1", "-2", ".5", ",", " ", "x", "é"],
                ["", "M0 0 B45 ", "M0 0 b1 h"], '<path d="%s"/>'),
    "points": (["1", "-2", ".5", "1e1", ",", " ", "x", "é", "#a@c", "#a", "^@tl", "#zz@c", "@", "~w"],
               ["", "1 2 "], '<rect id="a" wh="5"/><polyline points="%s"/>'),
    "transform": (["translate(", "scale(", "rotate(", "matrix(", "skewX(", ")", "1", "-2", ",", " ", "x", "é", "("],
                  ["", "translate(1) "], '<g transform="%s"><rect wh="1"/></g>'),
    "relspec-xy": (["#a", "^", "|", "@", "~", ":", "h", "V", "tl", "t", "r", "w", "5", "-3", "50%", " ", "x", "é", "#zz"],
                   ["", "#a"], '<rect id="a" wh="5"/><rect xy="%s" wh="1"/>'),
    "relspec-x": (["#a", "^", "|", "@", "~", ":", "h", "tl", "r", "w", "x2", "5", "-3", "50%", " ", "x", "é"],
                  ["", "#a"], '<rect id="a" wh="5"/><rect x="%s" y="0" wh="1"/>'),
    "relspec-wh": (["#a", "^", "~", "w", "h", "5", "-3", "50%", " ", ",", "x", "é", "@", "|"],
                   ["", "#a "], '<rect id="a" wh="5"/><rect wh="%s"/>'),
    "connector": (["#a", "#b", "^", "@", ":", "t", "r", "bl", "5", "-3", "50%", " ", ",", "x", "é", "#zz"],
                  ["", "#a@"], '<rect id="a" wh="5"/><rect id="b" xy="20" wh="5"/><line start="%s" end="#b"/>'),
    "margin": (["1", "-2", ".5", "50%", "%", ",", " ", "x", "é", "1e1"],
               ["", "1 "], '<rect id="a" wh="5"/><rect surround="#a" margin="%s"/>'),
    "text-loc": (["t", "b", "l", "r", "c", "tl", ":", "5", "-3", "50%", " ", "x"],
                 [""], '<rect wh="5" text="x" text-loc="%s"/>'),
    "expr": (["1", "-", ".5", "+", "*", "/", "%", "(", ")", ",", "$v", "$u", "${v}", "#a~w", "'s'", "abs", "random",
              "eq", "and", " ", "x", "{{", "}}", "$", "$\u00e9", "${\u65e5\u672c}", "$v\u00e9", "#\u00e9~w", "\u00e9"],
             ["", "1 "], '<rect id="a" wh="5"/><var v="3"/><rect wh="{{%s}}"/>'),
    "var-subst": (["$", "{", "}", "v", "u", "\\", "$v", "${", "{{", "}}", " ", "1", "\u00e9", "\U0001F600"],
                  [""], '<var v="3"/><text text="%s"/>'),
    "loop-attrs": (["1", "-1", "0.5", "$v", "{{", "}}", "(", ")", "x", " ", "1e9", "nan", "inf", "$\u00e9", "${\u00df}"],
                   [""], '<var v="2"/><loop count="%s"><rect wh="1"/></loop>'),
    # class lists: tokens that expand to several classes, duplicates of classes already present, empty expansions
    "class-tokens": (["a", "b", "$v", "$u", "${v}", "$e", "{{1}}", " ", "  ", "a a", "d-red", "$w", "\t"],
                     ["", "a "], '<var v="a b c" u="b b" e="" w="d-red d-thick"/><rect wh="1" class="%s"/>'),
    "class-tokens-g": (["a", "$v", "$u", "$e", " ", "a a", "$w", "d-red"],
                       ["", "a "], '<var v="a b c" u="b b" e="" w="d-red d-thick"/><g class="%s"><rect wh="1"/></g><loop count="2"><g class="%s $v"/></loop>'),
    # attributes that reach the expression tokenizer without the variable pre-pass
    "if-test": (["1", "0", "$v", "$u", "${v}", "$\u00e9", "${\u65e5}", "$", "eq", "(", ")", ",", " ", "-", "x", "\u00e9", "{{", "}}", "'s'"],
                [""], '<var v="2"/><if test="%s"><rect wh="1"/></if>'),
    "loop-while": (["1", "0", "$v", "$\u00e9", "${\u00df}", "lt", "(", ")", ",", " ", "x", "\u00e9", "{{", "}}"],
                   [""], '<var v="2"/><loop while="%s"><var v="0"/><rect wh="1"/></loop>'),
    "for-data": (["1", ",", " ", "$v", "$\u00e9", "${\u65e5}", "'a'", "(", ")", "x", "\u00e9", "{{", "}}", "-"],
                 [""], '<var v="2"/><for var="q" data="%s"><rect wh="1"/></for>'),
}


def xml_attr_escape(s):
    return s.replace("&", "&amp;").replace("<", "&lt;").replace('"', "&quot;")


def scanner_strings(tier):
    for name, (alpha, prefixes, tmpl) in SCANNERS.items():
        k = 3 if tier == "quick" else 4
        if tier == "thorough" and name in ("path", "bearing", "points", "transform") and len(alpha) <= 14:
            k = 5
        for n in range(1, k + 1):
            for combo in itertools.product(alpha, repeat=n):
                s = "".join(combo)
                for pre in prefixes:
                    yield name, doc(tmpl.replace("%s", xml_attr_escape(pre + s)))


# ------------------------------------------------------------------------------------------
# stream 3: hostile function arguments

FUNCS = ["abs", "ceil", "floor", "fract", "sign", "divmod", "sqrt", "log", "exp", "pow", "sin", "cos", "tan", "asin",
         "acos", "atan", "random", "randint", "min", "max", "sum", "product", "mean", "clamp", "mix", "eq", "ne",
         "lt", "le", "gt", "ge", "if", "not", "and", "or", "xor", "swap", "r2p", "p2r", "select", "addv", "subv",
         "scalev", "head", "tail", "empty", "count", "in", "split", "splitw", "trim", "join", "_"]
HOSTILE = ["0/0", "1/0", "-1/0", "0", "-0", "1", "-1", "1e38", "-1e38", "0.5", "2147483648", "-2147483649",
           "'s'", "''", "()", "$undefined", "1e-45", "3e38*10", "4294967296"]


def func_cases(ctx, tier):
    rng = ctx.rng("func")
    for f in FUNCS:
        yield f, "%s()" % f
        for a in HOSTILE:
            yield f, "%s(%s)" % (f, a)
        for a in HOSTILE:
            for b in HOSTILE:
                yield f, "%s(%s, %s)" % (f, a, b)
        if tier == "thorough":
            for a in HOSTILE:
                for b in HOSTILE:
                    for c in HOSTILE:
                        yield f, "%s(%s, %s, %s)" % (f, a, b, c)
        else:
            for _ in range(400):
                yield f, "%s(%s)" % (f, ", ".join(rng.choice(HOSTILE) for _ in range(rng.choice([3, 3, 3, 4, 5]))))


# ------------------------------------------------------------------------------------------
# stream 4: structure-aware mutation

DICT = [b' class="d-red $x"', b'<var x="d-red d-thick"/>', b' class="$x $x"', "$\u00e9".encode(), "${\u65e5\u672c}".encode(), "#\u00e9".encode(), "{{$\u00df + 1}}".encode(), "\u00e9".encode(), "\U0001F600".encode(),
        b"#a", b"^", b"|h", b"|V 3", b"@tl", b"@t:50%", b"~w", b"{{", b"}}", b"$x", b"${x}", b"{{$x+1}}", b"&amp;", b"&#10;",
        b"&lt;", b"<!--", b"-->", b"<![CDATA[", b"]]>", b"<?pi x?>", b"<g>", b"</g>", b"<svg>", b"</svg>", b"<rect wh=\"1\"/>",
        b"<reuse href=\"#a\"/>", b"<use href=\"#a\"/>", b"<loop count=\"3\">", b"</loop>", b"<if test=\"1\">", b"</if>",
        b"<var x=\"$x$x\"/>", b"<specs>", b"</specs>", b"<defaults>", b"</defaults>", b"<for var=\"i\" data=\"1,2\">",
        b"</for>", b" id=\"a\"", b" xy=\"^|h\"", b" wh=\"#a\"", b" text=\"$x\"", b" surround=\"#a #b\"", b" inside=\"#a\"",
        b" start=\"#a\" end=\"#b\"", b" clip-path=\"url(#a)\"", b" transform=\"translate(1 2) scale(2)\"", b" d=\"M0 0 z\"",
        b" points=\"#a@c 1 2\"", b" class=\"d-grid-5 d-red\"", b" margin=\"1 2%\"", b" dxy=\"1\"", b" dwh=\"50%\"",
        b" xy-loc=\"br\"", b" text-loc=\"t:20%\"", b" edge-type=\"h\"", b" corner-offset=\"30%\"", b" href=\"#b\"",
        b" rxy=\"3 4\"", b" cxy=\"#a@c\"", b" match=\"rect.x init final\"", b"0/0", b"1e39", b"-", b"\\n", b"'", b"\"", b"\x00",
        b"\xff", b"\xc3", b"\xe2\x82", b"\xf0\x9f\x98\x80", b"\xef\xbb\xbf", b"<", b">", b"/", b"=", b"&", b"<!DOCTYPE x [", b"]>"]
HOSTILE_VALUES = [b"", b" ", b"#", b"#a", b"#nope", b"^", b"^^", b"{{", b"}}", b"{{}}", b"{{1/0}}", b"{{0/0}}", b"$", b"${", b"$x",
                  b"-1", b"1e39", b"-1e39", b"NaN", b"inf", b"1 2 3 4 5", b"50%", b"%", b"1,,2", b"#a|", b"#a|z", b"#a@", b"#a@zz",
                  b"#a~", b"#a~zz", b"#a:", b"url(#a)", b"url(#", b"M0 0 z 5", b"0 0", b"a" * 2000]
TAGSPAN = re.compile(rb"<[A-Za-z][^<>]*?/>|<([A-Za-z][\w-]*)[^<>]*>.*?</\1>", re.S)
ATTRVAL = re.compile(rb'="[^"]*"')


def mutate(rng, data):
    n = rng.choice([1, 1, 2, 2, 3, 4])
    for _ in range(n):
        op = rng.randrange(10)
        ln = len(data)
        if ln == 0:
            data = rng.choice(DICT)
            continue
        if op == 0:
            pos = rng.randrange(ln + 1)
            data = data[:pos] + rng.choice(DICT) + data[pos:]
        elif op == 1:
            a = rng.randrange(ln)
            b = min(ln, a + rng.choice([1, 2, 5, 20, 100]))
            data = data[:a] + data[b:]
        elif op == 2:
            ms = list(TAGSPAN.finditer(data))
            if ms:
                m = rng.choice(ms)
                reps = rng.choice([1, 1, 2, 5])
                data = data[:m.end()] + m.group(0) * reps + data[m.end():]
        elif op == 3:
            pos = rng.randrange(ln)
            data = data[:pos] + bytes([data[pos] ^ (1 << rng.randrange(8))]) + data[pos + 1:]
        elif op == 4:
            data = data[:rng.randrange(ln)]
        elif op == 5:
            ms = list(ATTRVAL.finditer(data))
            if ms:
                m = rng.choice(ms)
                data = data[:m.start()] + b'="' + rng.choice(HOSTILE_VALUES) + b'"' + data[m.end():]
        elif op == 6:
            ms = list(TAGSPAN.finditer(data))
            if len(ms) >= 2:
                m1, m2 = sorted(rng.sample(ms, 2), key=lambda m: m.start())
                if m1.end() <= m2.start():
                    data = data[:m1.start()] + m2.group(0) + data[m1.end():m2.start()] + m1.group(0) + data[m2.end():]
        elif op == 7:
            ms = list(TAGSPAN.finditer(data))
            if ms:
                m = rng.choice(ms)
                o, c = rng.choice([(b"<g>", b"</g>"), (b'<loop count="2">', b"</loop>"), (b"<specs>", b"</specs>"),
                                   (b'<if test="1">', b"</if>"), (b"<defs>", b"</defs>"), (b"<svg>", b"</svg>"),
                                   (b'<g transform="scale(2)">', b"</g>"), (b"<text>", b"</text>"),
                                   (b'<for var="q" data="1,2">', b"</for>"), (b"<symbol id=\"a\">", b"</symbol>")])
                data = data[:m.start()] + o + m.group(0) + c + data[m.end():]
        elif op == 8:
            # invalid UTF-8 at a token position
            spots = [m.start() + 1 for m in re.finditer(rb"<[A-Za-z!?]", data)] + \
                    [m.start() + 2 for m in ATTRVAL.finditer(data)] + [m.start() for m in re.finditer(rb"[A-Za-z-]+=", data)]
            if spots:
                pos = rng.choice(spots)
                data = data[:pos] + rng.choice([b"\xff", b"\xc3", b"\xe2\x82", b"\x80", b"\xed\xa0\x80", b"\xf8"]) + data[pos:]
        else:
            ms = list(TAGSPAN.finditer(data))
            if ms:
                m = rng.choice(ms)
                data = data[:m.start()] + data[m.end():]
    return data


LIMITS = [0, 1, 2, 3, 10]


def mutant_cfg(rng, data):
    cfg = {}
    loops = len(re.findall(rb"<(loop|for)\b", data))
    if loops:
        cfg["loop"] = rng.choice(LIMITS) if loops > 1 or rng.random() < 0.7 else 1000
    r = rng.random()
    if r < 0.15:
        cfg["depth"] = rng.choice([0, 1, 2, 5, 100])
    if rng.random() < 0.1:
        cfg["var"] = rng.choice([0, 1, 2, 1024])
    if rng.random() < 0.25:
        cfg["debug"] = True
    if rng.random() < 0.2:
        cfg["meta"] = True
    if rng.random() < 0.1:
        cfg["scale"] = rng.choice([0.0, float("nan"), float("inf"), float("-inf"), 1e30, -1.0])
    if rng.random() < 0.1:
        cfg["border"] = rng.choice([0, 65535])
    if rng.random() < 0.1:
        cfg["theme"] = rng.choice(["bold", "fine", "glass", "light", "dark"])
    if rng.random() < 0.08:
        cfg["bg"] = rng.choice(["", "]]>", "red", "x" * 5000, "</style>"])
    if rng.random() < 0.08:
        cfg["ff"] = rng.choice(["", "]]>", "'a b'", "x" * 5000])
    if rng.random() < 0.05:
        cfg["fs"] = rng.choice([0.0, float("nan"), float("inf"), -1.0, 1e38])
    if rng.random() < 0.08:
        cfg["local"] = True
    if rng.random() < 0.05:
        cfg["auto"] = False
    if rng.random() < 0.05:
        cfg["style"] = rng.choice(["", "a\"b", "x" * 3000])
    if rng.random() < 0.1:
        cfg["seed"] = rng.choice([0, 1, 2 ** 64 - 1])
    return cfg or None


# ------------------------------------------------------------------------------------------

def run_shard(ctx):
    tier = ctx.tier
    ctx.worker.wall_s = 60
    acc = ctx.acc
    try:
        # stream 1
        for i, (fam, d, text, nested) in enumerate(sweep_families(tier)):
            if not ctx.mine(i):
                continue
            case = dict(stream="sweep", fam=fam, d=d, input=text.encode("utf-8"), cfg=None, nested=nested,
                        also_str=True, frontends=(d <= 10000), fe_files=(i % 4 == 0))
            check_case(ctx, case)
            acc.feature("sweep." + fam.split(".")[0])
            if len(acc.samples) < 2:
                acc.sample(dict(stream="sweep", family=fam, d=d, input=core.trunc(text, 160)))
        # stream 2
        n2 = 0
        for i, (name, text) in enumerate(scanner_strings(tier)):
            if not ctx.mine(i):
                continue
            n2 += 1
            case = dict(stream="scanner", fam="scanner." + name, input=text.encode("utf-8"), cfg=None,
                        frontends=(n2 % (50 if tier == "quick" else 10) == 0))
            check_case(ctx, case)
            acc.count("scanner." + name)
            if n2 == 7:
                acc.sample(dict(stream="scanner", scanner=name, input=text))
        # stream 3
        n3 = 0
        for i, (f, ex) in enumerate(func_cases(ctx, tier)):
            if not ctx.mine(i):
                continue
            n3 += 1
            text = doc('<rect wh="{{%s}}"/>' % xml_attr_escape(ex))
            case = dict(stream="func", fam="func." + f, input=text.encode("utf-8"), cfg=None,
                        frontends=(n3 % (200 if tier == "quick" else 40) == 0))
            check_case(ctx, case)
            if n3 == 11:
                acc.sample(dict(stream="func", input=text))
        # stream 4
        docs = [t.encode("utf-8") for t in corpus.texts() if len(t) <= 8192]
        rng = ctx.rng("mutate")
        n4 = (12000 if tier == "quick" else 400000)
        dropped = 0
        for j in range(n4):
            if ctx.out_of_time():
                acc.notes.append("shard %d: time budget reached after %d mutants" % (ctx.shard, j))
                break
            base = rng.choice(docs)
            m = mutate(rng, base)
            if len(m) > 8192 or LIMIT_WORDS.search(m):
                dropped += 1
                continue
            cfg = mutant_cfg(rng, m)
            case = dict(stream="mutant", fam="mutant", input=m, cfg=cfg, also_str=(j % 7 == 0),
                        frontends=(j % (50 if tier == "quick" else 10) == 0), fe_files=(j % 200 == 0))
            check_case(ctx, case)
            if j == 5:
                acc.sample(dict(stream="mutant", cfg=cfg, input=core.trunc(m, 300)))
        acc.count("mutants.dropped(limit-attr or >8KiB)", dropped)
    finally:
        close_frontends(ctx)
