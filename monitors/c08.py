"""C08 Root extent: viewBox, width and height enclose exactly the drawn content.

Oracle: E is recomputed from the output's own geometry (plus the generator's absolute geometry for <box>, which is
not emitted) by an independent model, grown by the border, rounded outward, scaled; compared with the root attributes.
All coordinates lie on a 1/4 grid, so the comparison of viewBox / mm sizes is exact."""
import math
import re
from fractions import Fraction as F

from . import core, geom
from .geom import Box, fmt

LEVEL = "exploration"
TECHNIQUE = "reference-model runtime oracle: extent recomputed from the parsed output (independent bounding-box rules) vs root attributes"
LEVEL_TEXT = ("Held on the executions observed: ~6e4 generated documents (11 element kinds, nested groups with translate/scale, "
              "clip paths, defs/specs/symbol content, reuse/use instances, forward references, negative and fractional coordinates) "
              "x border x scale x the 8 subsets of author-supplied width/height/viewBox: root attributes equalled the recomputed "
              "extent. Exploration over inputs x configurations.")
LEVEL_NOTE = ("Trusted: the extent rules of this module (from the property statement and SVG semantics). Curves/arcs and rotate/skew "
              "transforms are not generated (the documentation declares their extent incomplete); a group carries either a transform "
              "or a clip-path, never both (the statement does not fix their order); clipPath definitions live in <defs>.")
BUDGET_S = {"quick": 120, "thorough": 1200}
FLOOR = {"quick": 200, "thorough": 5000}
RULE = ("generated documents with >= 1 rendered element; non-trivial = >= 2 contributing elements of different kinds, or a "
        "transform / clip-path / author-supplied root attribute; distinct by hash(document, config)")
ASSUMPTIONS = ["coordinates are multiples of 1/4; scale in {0.5,1,1.5,2,3}; border in {0,1,5,12,100}"]

UNITS = ["", "mm", "in", "%", "px", "cm"]


# ------------------------------------------------------------------------------------------------
# independent extent model over the parsed output

def path_box(d):
    toks = re.findall(r"[MmLlHhVvZz]|[-+]?(?:\d+\.?\d*|\.\d+)", d)
    i = 0
    cur = None
    start = None
    pts = []
    cmd = None
    while i < len(toks):
        t = toks[i]
        if re.match(r"[A-Za-z]", t):
            cmd = t
            i += 1
            if cmd in "Zz":
                if start is not None:
                    cur = start
                    pts.append(cur)
                continue
        if cmd is None:
            raise ValueError("path data without command")
        if cmd in "MLml":
            x, y = F(toks[i]), F(toks[i + 1])
            i += 2
            if cmd.islower() and cur is not None:
                cur = (cur[0] + x, cur[1] + y)
            else:
                cur = (x, y)
            if cmd in "Mm" and start is None:
                start = cur
            elif cmd in "Mm":
                start = cur
            pts.append(cur)
            if cmd == "M":
                cmd = "L"
            elif cmd == "m":
                cmd = "l"
        elif cmd in "Hh":
            x = F(toks[i])
            i += 1
            cur = ((cur[0] + x) if cmd == "h" else x, cur[1])
            pts.append(cur)
        elif cmd in "Vv":
            y = F(toks[i])
            i += 1
            cur = (cur[0], (cur[1] + y) if cmd == "v" else y)
            pts.append(cur)
        else:
            raise ValueError("unsupported path command " + cmd)
    if not pts:
        return None
    xs, ys = [p[0] for p in pts], [p[1] for p in pts]
    return Box(min(xs), min(ys), max(xs), max(ys))


def parse_transform(s):
    """list of ('translate', tx, ty) / ('scale', sx, sy); raises on anything else"""
    out = []
    for name, args in re.findall(r"(\w+)\s*\(([^)]*)\)", s):
        vals = [F(v) for v in re.split(r"[\s,]+", args.strip()) if v]
        if name == "translate":
            out.append(("translate", vals[0], vals[1] if len(vals) > 1 else F(0)))
        elif name == "scale":
            out.append(("scale", vals[0], vals[1] if len(vals) > 1 else vals[0]))
        else:
            raise ValueError("transform not modelled: " + name)
    return out


def apply_transform(box, s):
    # the transform list maps content coordinates to parent coordinates: the rightmost entry is applied first
    for kind, a, b in reversed(parse_transform(s)):
        if kind == "translate":
            box = box.translated(a, b)
        else:
            xs = sorted([box.x1 * a, box.x2 * a])
            ys = sorted([box.y1 * b, box.y2 * b])
            box = Box(xs[0], ys[0], xs[1], ys[1])
    return box


class Extent:
    def __init__(self, root, known_boxes, standalone_text_ids):
        self.ids = geom.by_id(root)
        self.known = known_boxes
        self.text_ids = standalone_text_ids
        self.visiting = set()

    def clip(self, el, box):
        cp = el.attrs.get("clip-path")
        if box is None or not cp:
            return box
        m = re.match(r"\s*url\(#([^)]+)\)\s*$", cp)
        if not m:
            return box
        c = self.ids.get(m.group(1))
        if c is None or c.name != "clipPath":
            return box
        cb = self.children_box(c)
        if cb is None:
            return box
        return box.intersect(cb)

    def children_box(self, el):
        box = None
        for c in el.elements():
            b = self.box(c)
            if b is not None:
                box = b if box is None else box.union(b)
        return box

    def box(self, el):
        """extent contribution of an output element (in its parent's coordinates)"""
        n = el.name
        if n in ("defs", "symbol", "style", "clipPath", "title", "desc", "marker", "linearGradient", "radialGradient", "pattern", "filter", "mask"):
            return None
        if n == "g":
            b = self.children_box(el)
            if b is not None and el.attrs.get("transform"):
                b = apply_transform(b, el.attrs["transform"])
            return self.clip(el, b)
        if n == "text":
            if el.attrs.get("id") not in self.text_ids:
                return None     # text generated for a shape adds nothing
            return self.clip(el, geom.out_box(el))
        if n == "tspan":
            return None
        if n == "path":
            return self.clip(el, path_box(el.attrs.get("d", "")))
        if n == "use":
            href = el.attrs.get("href", "")
            t = self.ids.get(href[1:]) if href.startswith("#") else None
            if t is None or id(t) in self.visiting:
                return None
            self.visiting.add(id(t))
            try:
                if t.name == "symbol":
                    b = self.children_box(t)
                elif t.name == "g":
                    b = self.children_box(t)
                    if b is not None and t.attrs.get("transform"):
                        b = apply_transform(b, t.attrs["transform"])
                else:
                    b = self.box_of_shape(t)
            finally:
                self.visiting.discard(id(t))
            if b is None:
                return None
            b = b.translated(geom.attr_num(el, "x", F(0)), geom.attr_num(el, "y", F(0)))
            return self.clip(el, b)
        return self.clip(el, self.box_of_shape(el))

    def box_of_shape(self, el):
        if el.name == "text":
            return geom.out_box(el)
        if el.name == "path":
            return path_box(el.attrs.get("d", ""))
        b = geom.out_box(el) if el.name in ("rect", "circle", "ellipse", "line", "polyline", "polygon", "image", "foreignObject") else None
        if b is not None and el.attrs.get("transform"):
            b = apply_transform(b, el.attrs["transform"])
        return b


def expected_root(E, border, scale):
    x1 = math.floor(E.x1 - border)
    y1 = math.floor(E.y1 - border)
    x2 = math.ceil(E.x2 + border)
    y2 = math.ceil(E.y2 + border)
    return x1, y1, x2 - x1, y2 - y1


def num_close(a, b, tol=0.0011):
    return abs(a - b) <= tol + 1e-5 * max(abs(a), abs(b))


def split_unit(s):
    m = re.match(r"^\s*([-+]?(?:\d+\.?\d*|\.\d+))\s*(.*?)\s*$", s)
    if not m:
        return None
    return float(m.group(1)), m.group(2)


# ------------------------------------------------------------------------------------------------
# generator

class Gen08:
    def __init__(self, rng):
        self.r = rng
        self.n = 0
        self.known = {}          # id -> Box for <box> elements (absolute, in root coordinates: only generated at top level)
        self.text_ids = set()
        self.kinds = set()
        self.feats = set()
        self.shape_ids = []      # ids of top-level shapes with known absolute boxes: (id, Box)
        self.defs = []

    def g(self, lo=-30, hi=60):
        return F(self.r.randint(lo * 4, hi * 4), 4)

    def s(self):
        return F(self.r.randint(1, 80), 4)

    def nid(self):
        self.n += 1
        return "e%d" % self.n

    def clip_attr(self):
        if self.r.random() < 0.12:
            cid = self.nid()
            x, y, w, h = self.g(), self.g(), self.s() * 3, self.s() * 3
            self.defs.append('<clipPath id="%s"><rect x="%s" y="%s" width="%s" height="%s"/></clipPath>' % (cid, fmt(x), fmt(y), fmt(w), fmt(h)))
            self.feats.add("clip-path")
            return ' clip-path="url(#%s)"' % cid
        return ""

    def shape(self, top, indent):
        r = self.r
        k = r.choice(["rect", "rect", "circle", "ellipse", "line", "polyline", "polygon", "path", "text", "image", "box", "point", "use", "reuse", "rect-text", "rel"])
        eid = self.nid()
        x, y = self.g(), self.g()
        self.kinds.add(k)
        if k == "rect":
            w, h = self.s(), self.s()
            clip = self.clip_attr()
            s = '<rect id="%s" xy="%s %s" wh="%s %s"%s/>' % (eid, fmt(x), fmt(y), fmt(w), fmt(h), clip)
            if top and not clip:     # a fully clipped shape has no bounding box and cannot be a reference target
                self.shape_ids.append(eid)
        elif k == "rect-text":
            w, h = self.s(), self.s()
            s = '<rect id="%s" xy="%s %s" wh="%s %s" text="label" text-loc="%s"/>' % (eid, fmt(x), fmt(y), fmt(w), fmt(h), r.choice(["c", "t", "bl", "r"]))
            self.feats.add("shape-text")
        elif k == "circle":
            clip = self.clip_attr()
            s = '<circle id="%s" cxy="%s %s" r="%s"%s/>' % (eid, fmt(x), fmt(y), fmt(self.s() / 2), clip)
            if top and not clip:
                self.shape_ids.append(eid)
        elif k == "ellipse":
            s = '<ellipse id="%s" cxy="%s %s" rxy="%s %s"/>' % (eid, fmt(x), fmt(y), fmt(self.s() / 2), fmt(self.s() / 2))
        elif k == "line":
            s = '<line id="%s" xy1="%s %s" xy2="%s %s"/>' % (eid, fmt(x), fmt(y), fmt(self.g()), fmt(self.g()))
        elif k in ("polyline", "polygon"):
            pts = " ".join("%s,%s" % (fmt(self.g()), fmt(self.g())) for _ in range(r.randint(2, 5)))
            s = '<%s id="%s" points="%s"/>' % (k, eid, pts)
        elif k == "path":
            d = "M%s %s" % (fmt(x), fmt(y))
            for _ in range(r.randint(1, 4)):
                c = r.choice("LlHhVvZ")
                if c in "Ll":
                    d += " %s%s %s" % (c, fmt(self.g(-10, 30)), fmt(self.g(-10, 30)))
                elif c in "HhVv":
                    d += " %s%s" % (c, fmt(self.g(-10, 30)))
                else:
                    d += " Z"
            s = '<path id="%s" d="%s"/>' % (eid, d)
        elif k == "text":
            s = '<text id="%s" xy="%s %s" text="standalone"/>' % (eid, fmt(x), fmt(y))
            self.text_ids.add(eid)
        elif k == "image":
            s = '<image id="%s" xy="%s %s" wh="%s %s" href="a.png"/>' % (eid, fmt(x), fmt(y), fmt(self.s()), fmt(self.s()))
        elif k == "box":
            w, h = self.s(), self.s()
            if not top:
                return self.shape(top, indent)
            s = '<box id="%s" xy="%s %s" wh="%s %s"/>' % (eid, fmt(x), fmt(y), fmt(w), fmt(h))
            self.known[eid] = Box(x, y, x + w, y + h)
            self.feats.add("box")
        elif k == "point":
            s = '<point id="%s" xy="%s %s"/>' % (eid, fmt(self.g(-200, 300)), fmt(self.g(-200, 300)))
            self.feats.add("point")
        elif k in ("use", "reuse"):
            if not self.shape_ids:
                return self.shape(top, indent)
            # x and y are independently optional on <use>/<reuse>
            v = r.choice(["xy", "xy", "x", "y", "none"])
            pos = {"xy": ' x="%s" y="%s"' % (fmt(self.g(-10, 10)), fmt(self.g(-10, 10))), "x": ' x="%s"' % fmt(self.g(-40, 40)),
                   "y": ' y="%s"' % fmt(self.g(-40, 40)), "none": ""}[v]
            s = '<%s id="%s" href="#%s"%s/>' % (k, eid, r.choice(self.shape_ids), pos)
            self.feats.add(k)
            self.feats.add(k + ".pos=" + v)
        else:
            if not self.shape_ids:
                return self.shape(top, indent)
            fwd = r.random() < 0.3
            tgt = "fwd%d" % self.n if fwd else r.choice(self.shape_ids)
            s = '<rect id="%s" xy="#%s|%s %s" wh="%s %s"/>' % (eid, tgt, r.choice("hHvV"), fmt(self.g(0, 5)), fmt(self.s()), fmt(self.s()))
            if fwd:
                self.pending_fwd.append('<rect id="%s" xy="%s %s" wh="%s"/>' % (tgt, fmt(self.g()), fmt(self.g()), fmt(self.s())))
                self.feats.add("forward-ref")
            self.feats.add("relative")
        return indent + s

    def group(self, depth, indent):
        r = self.r
        gid = self.nid()
        attrs = ""
        k = r.random()
        if k < 0.45:
            attrs = ' transform="%s"' % r.choice(["translate(%s %s)" % (fmt(self.g(-10, 10)), fmt(self.g(-10, 10))),
                                                 "translate(%s)" % fmt(self.g(-10, 10)), "scale(%s)" % r.choice(["2", "0.5", "1.5", "3"]),
                                                 "scale(%s %s)" % (r.choice(["2", "0.5"]), r.choice(["1", "4"])),
                                                 "translate(%s, %s) scale(%s)" % (fmt(self.g(-10, 10)), fmt(self.g(-10, 10)), r.choice(["2", "0.5"])),
                                                 "scale(2) translate(%s %s)" % (fmt(self.g(-10, 10)), fmt(self.g(-10, 10)))])
            self.feats.add("group-transform")
        elif k < 0.6:
            attrs = self.clip_attr()
        lines = ["%s<g id=\"%s\"%s>" % (indent, gid, attrs)]
        for _ in range(r.randint(1, 3)):
            if depth < 2 and r.random() < 0.25:
                lines += self.group(depth + 1, indent + "  ")
                self.feats.add("nested-group")
            else:
                lines.append(self.shape(False, indent + "  "))
        lines.append("%s</g>" % indent)
        self.kinds.add("g")
        return lines

    def document(self):
        r = self.r
        self.pending_fwd = []
        lines = []
        for _ in range(r.randint(1, 9)):
            k = r.random()
            if k < 0.7:
                lines.append(self.shape(True, "  "))
            elif k < 0.88:
                lines += self.group(0, "  ")
            elif k < 0.92:
                lines.append('  <defs><rect id="%s" xy="500 500" wh="900"/></defs>' % self.nid())
                self.feats.add("defs-content")
            elif k < 0.96:
                lines.append('  <specs><rect id="%s" xy="-700 500" wh="900"/></specs>' % self.nid())
                self.feats.add("specs-content")
            else:
                lines.append('  <symbol id="%s"><rect xy="600 -800" wh="50"/></symbol>' % self.nid())
                self.feats.add("symbol-content")
        lines += ["  " + s for s in self.pending_fwd]
        if self.defs:
            # the clipPath definitions may come before or after the elements they clip (forward reference)
            where = r.choice(["first", "first", "last", "middle"])
            at = {"first": 0, "last": len(lines), "middle": r.randint(0, len(lines))}[where]
            lines.insert(at, "  <defs>" + "".join(self.defs) + "</defs>")
            self.feats.add("clip-defs." + where)
        root_attrs = {}
        sub = r.randrange(8) if r.random() < 0.5 else 0
        if sub & 1:
            root_attrs["width"] = "%s%s" % (r.choice(["100", "12.5", "300", "7"]), r.choice(UNITS))
        if sub & 2:
            root_attrs["height"] = "%s%s" % (r.choice(["80", "20.25", "150"]), r.choice(UNITS))
        if sub & 4:
            root_attrs["viewBox"] = r.choice(["0 0 100 100", "-10 -10 50 80", "0 0 1 1"])
        if r.random() < 0.1:
            root_attrs["version"] = r.choice(["1.1", "2.0"])
        if root_attrs:
            self.feats.add("root." + "+".join(sorted(root_attrs)))
        ra = "".join(' %s="%s"' % kv for kv in root_attrs.items())
        return "<svg%s>\n%s\n</svg>\n" % (ra, "\n".join(lines)), root_attrs


def check_case(ctx, case):
    acc = ctx.acc
    acc.cases += 1
    cfg = case["cfg"]
    r = ctx.run(case["input"], cfg)
    if r.crashed:
        acc.count("crashed(C01's business)")
        return
    if not r.ok:
        acc.violation("rejected", "rejected:" + str(r.kind), case, observed=core.trunc(r.err, 300), expected="Ok")
        return
    root = geom.parse_out(r.out, fragment=False)
    svg = root.elements()[0]
    known = {k: Box(*[geom.fr(v) for v in b]) for k, b in case["known"].items()}
    ex = Extent(svg, known, set(case["text_ids"]))
    try:
        E = ex.children_box(svg)
    except ValueError as e:
        acc.inconc("model-cannot-read-output")
        acc.notes.append("C08 model: %s" % e)
        return
    for b in known.values():
        E = b if E is None else E.union(b)
    if case.get("nontrivial"):
        acc.nontriv(core.chash(case["input"], core.encode_cfg(cfg)), case.get("feats", []))
    a = svg.attrs
    given = case["root_attrs"]
    for k, v in given.items():
        if a.get(k) != v:
            acc.violation("author-attribute-changed", "root:author-%s-changed" % k, case, observed=a.get(k), expected=v,
                          what="author-supplied %s was not kept verbatim" % k)
    if a.get("xmlns") != "http://www.w3.org/2000/svg" or ("version" not in a):
        acc.violation("root-attrs", "root:xmlns/version", case, observed=a, expected="xmlns + version")
    if E is None:
        acc.count("empty-extent")
        return
    eff = case.get("eff") or cfg
    border, scale = eff.get("border", 5), eff.get("scale", 1.0)
    vx, vy, vw, vh = expected_root(E, border, scale)
    if "viewBox" not in given:
        got = a.get("viewBox", "")
        try:
            gv = [float(t) for t in got.split()]
        except ValueError:
            gv = []
        if gv != [float(vx), float(vy), float(vw), float(vh)]:
            which = [n for n, g_, e_ in zip(("x", "y", "w", "h"), gv + [None] * 4, (vx, vy, vw, vh)) if g_ != float(e_)]
            acc.violation("viewBox", "viewBox:%s" % "".join(which), case, observed=got, expected="%s %s %s %s" % (vx, vy, vw, vh),
                          what="viewBox %r but the rendered content, grown by border %s and rounded outward, is %s %s %s %s (E=%r)" % (got, border, vx, vy, vw, vh, E))
            return
    aspect = F(vw, vh) if vh else None
    has_w, has_h = "width" in given, "height" in given
    if not has_w and not has_h:
        ew, eh = "%smm" % geom_fstr(vw * scale), "%smm" % geom_fstr(vh * scale)
        if a.get("width") != ew or a.get("height") != eh:
            acc.violation("size", "size:mm-scaled", case, observed=(a.get("width"), a.get("height")), expected=(ew, eh),
                          what="width/height should be the extent size x scale in mm")
    elif has_w != has_h and aspect:
        src, dst = ("width", "height") if has_w else ("height", "width")
        su = split_unit(given[src])
        du = split_unit(a.get(dst, ""))
        if su is None:
            return
        want = su[0] / float(aspect) if has_w else su[0] * float(aspect)
        if du is None or du[1] != su[1] or not num_close(du[0], want):
            acc.violation("size", "size:derived-%s" % dst, case, observed=a.get(dst), expected="%.3f%s" % (want, su[1]),
                          what="%s should follow from %s=%s and the aspect ratio %s:%s with the same unit" % (dst, src, given[src], vw, vh))


def geom_fstr(v):
    from .f32 import fstr, f32
    return fstr(f32(float(v)))


def run_shard(ctx):
    acc = ctx.acc
    rng = ctx.rng("docs")
    n = 12000 if ctx.quick() else 250000
    for j in range(n):
        if ctx.out_of_time():
            acc.notes.append("time budget reached after %d docs" % j)
            break
        g = Gen08(rng)
        doc, root_attrs = g.document()
        cfg = dict(auto=False, border=rng.choice([0, 1, 5, 5, 12, 100]), scale=rng.choice([0.5, 1.0, 1.0, 1.5, 2.0, 3.0]))
        nontrivial = len(g.kinds) >= 2 or bool(g.feats & {"group-transform", "clip-path"}) or bool(root_attrs)
        # how border and scale reach the transform: through the API configuration, through <config> elements (one, or one per
        # setting), or split between the two; an unrelated <config> must leave the settings in force alone
        run_cfg = dict(cfg)
        how = rng.choice(["api", "api", "api", "config-one", "config-two", "api+unrelated-config", "api-border+config-scale", "config-border+api-scale"])
        lines = doc.split("\n")
        ins = []
        if how == "config-one":
            run_cfg.pop("border"), run_cfg.pop("scale")
            ins = ['<config border="%s" scale="%s"/>' % (cfg["border"], cfg["scale"])]
        elif how == "config-two":
            run_cfg.pop("border"), run_cfg.pop("scale")
            ins = ['<config border="%s"/>' % cfg["border"], '<config scale="%s"/>' % cfg["scale"]]
            rng.shuffle(ins)
        elif how == "api+unrelated-config":
            ins = ['<config %s/>' % rng.choice(['seed="7"', 'loop-limit="50"', 'font-family="serif"', 'depth-limit="40"'])]
        elif how == "api-border+config-scale":
            run_cfg.pop("scale")
            ins = ['<config scale="%s"/>' % cfg["scale"]]
        elif how == "config-border+api-scale":
            run_cfg.pop("border")
            ins = ['<config border="%s"/>' % cfg["border"]]
        for c_el in ins:
            # top-level lines only: lines[0] is the root start tag, lines[-2] the root end tag
            tops = [i for i in range(1, len(lines) - 1) if lines[i].startswith("  <") and not lines[i].startswith("  </")]
            at = rng.choice(tops) if tops and rng.random() < 0.5 else 1
            lines.insert(at, "  " + c_el)
        if ins:
            doc = "\n".join(lines)
        g.feats.add("settings-via." + how)
        case = dict(input=doc.encode(), cfg=run_cfg, eff=dict(border=cfg["border"], scale=cfg["scale"]), known={k: [fmt(v) for v in b.tuple()] for k, b in g.known.items()},
                    text_ids=sorted(g.text_ids), root_attrs=root_attrs, feats=sorted(g.feats | {"kind." + k for k in g.kinds}), nontrivial=nontrivial)
        check_case(ctx, case)
        if j < 2:
            acc.sample(dict(input=doc, cfg=run_cfg))
