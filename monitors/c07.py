"""C07 Front-ends agree, transforms are isolated, and failures leave no damage.

 (a) agreement: library str / stream API, CLI (4 in/out combinations) and POST /api/transform give the same bytes
 (b) isolation: every response inside a sequential or concurrent history equals the response a fresh process gives
 (c) failures: non-zero exit + message, existing output file untouched; HTTP 400 text/plain
 (d) the CLI refuses an output path that names its input (same path, ./, dir/.., symlink)
The reference for each (input, config) is computed once by a fresh CLI process."""
import os
import threading
import time

from . import core, corpus, docgen, frontends

LEVEL = "exploration"
NEEDS_FRONTENDS = True
TECHNIQUE = "offline checker over recorded call/return histories (sequential and concurrent) against fresh-process references; differential front-end comparison; file-system effect monitor"
LEVEL_TEXT = ("Held on the histories observed: per run ~5e3 library jobs, ~600 CLI executions and ~4e3 HTTP requests in sequential "
              "histories and in concurrent batches (up to 32 overlapping requests; overlap statistics recorded), every response "
              "equal to the fresh-process reference; failing runs left sentinel output files byte-identical and reported errors "
              "as specified; same-file output refused in 4 spellings. Exploration over schedules/histories is sampling by nature.")
LEVEL_NOTE = ("Trusted: one fresh CLI process per (input, config) as the reference. The server can only express add_metadata, so "
              "other configurations are compared between library and CLI only. An empty successful output is answered 400 "
              "'Empty response' by design and excluded. Hard links are not treated as 'its own input'. Watch mode not driven.")
BUDGET_S = {"quick": 240, "thorough": 2400}
FLOOR = {"quick": 200, "thorough": 2000}
RULE = ("request pool of distinct documents (generator + repository corpus; about one third failing; state-leaving: <var>, "
        "<config seed/limits/theme>, <defaults>, reused ids, random functions, specs/reuse); histories = random sequences and "
        "concurrent batches over the pool; non-trivial = a request whose reference differs from the reference of the request "
        "before it in its history (sequential) or of a request overlapping it (concurrent); distinct by hash(history id, position)")
ASSUMPTIONS = ["CLI error text is Debug-formatted, so for failing inputs only failure itself (status, message present) is compared with the library"]


def state_doc(rng):
    """documents that would leave traces if any state were shared between transforms"""
    r = rng
    k = r.randrange(10)
    a, b = r.randint(1, 9), r.randint(1, 9)
    if k >= 8:
        # settings that parametrise the generated style rules (font size / family, theme), set inside the document, together
        # with the classes whose rules depend on them - and the same classes without the settings
        sizes = " ".join(r.sample(["d-text-smallest", "d-text-smaller", "d-text-small", "d-text-medium", "d-text-large", "d-text-larger", "d-text-largest",
                                   "d-text-ol", "d-text-ol-thick", "d-text-monospace"], r.randint(1, 3)))
        conf = r.choice(["", "", '<config font-size="%d"/>' % r.choice([2, 4, 6, 9]), '<config font-size="%s" font-family="%s"/>' % (r.choice(["2.5", "12"]), r.choice(["serif", "monospace"])),
                         '<config theme="%s" font-size="%d"/>' % (r.choice(docgen.THEMES), r.choice([1, 5]))])
        return '<svg>%s<rect wh="%d" text="s%d" class="%s"/><text xy="0 %d" text="t" class="%s"/></svg>' % (conf, a + 3, b, sizes, a + 8, r.choice(["d-text-large", "d-text-smaller d-text-bold"]))
    if k == 0:
        return '<svg><var v="%d"/><rect id="a" wh="$v" text="v=$v w=$w"/></svg>' % a
    if k == 1:
        return '<svg><rect id="a" wh="%d"/><rect id="b" xy="#a|h %d" wh="2" text="$v"/><var v="leak%d"/></svg>' % (a, b, a)
    if k == 2:
        return '<svg><config seed="%d"/><rect wh="{{1+randint(1,20)}}" text="{{random()}}"/></svg>' % a
    if k == 3:
        return '<svg><rect wh="{{1+randint(1,20)}}" text="{{random()}} {{random()}}"/></svg>'
    if k == 4:
        return '<svg><config theme="%s" border="%d" loop-limit="%d"/><loop count="%d"><rect xy="^|h" wh="2"/></loop></svg>' % (
            r.choice(docgen.THEMES), a, r.choice([2, 5, 1000]), b)
    if k == 5:
        return '<svg><defaults><rect fill="c%d" wh="%d"/></defaults><rect/><rect xy="^|v"/></svg>' % (a, b)
    if k == 6:
        return '<svg><specs><rect id="a" wh="%d" text="$t"/></specs><reuse href="#a" t="T%d"/><reuse href="#a" t="U" x="9"/></svg>' % (a, b)
    return '<svg><rect id="a" xy="#b|v" wh="%d"/><rect id="b" wh="%d"/><use href="#a" x="30"/></svg>' % (a, b)


def failing_doc(rng):
    r = rng
    return r.choice([
        '<svg><rect xy="#missing%d|h" wh="2"/></svg>' % r.randint(0, 99),
        '<svg><rect wh="{{1+}}"/><var v="bad%d"/></svg>' % r.randint(0, 99),
        '<svg><var v="x%d"/><loop count="2000"><rect wh="1"/></loop></svg>' % r.randint(0, 99),
        '<svg><config seed="%d"/><rect wh="{{random()}}"/><rect id="a" xy="#a|h" wh="1"/></svg>' % r.randint(0, 99),
        '<svg><rect wh="2"></svg>',
        '<svg><config nonsense="%d"/></svg>' % r.randint(0, 99),
        '<svg><defaults><rect fill="f%d"/></defaults><reuse href="#nope"/></svg>' % r.randint(0, 99),
    ])


# documents that fail LATE: every element resolves, the error is raised while the root element is being synthesised,
# i.e. after the writer may already have been handed the part of the output that precedes the root element
LATE_FAIL = [
    '<!-- my diagram -->\n<svg width="wide"><rect wh="10"/></svg>',
    '<?xml version="1.0"?>\n<svg height="1 2"><rect wh="10" text="t"/></svg>',
    'leading text <svg width="x"><rect wh="3"/></svg>',
    '<!-- a --><!-- b -->\n<svg height=".."><circle r="3"/></svg>',
]


def build_pool(rng, n):
    pool, seen = [], set()
    for t in LATE_FAIL:
        seen.add(t)
        pool.append(t.encode("utf-8"))
    docs = [t for t in corpus.texts() if len(t) < 6000]
    # documents written on a single line without a final line break (the last output line is long: line-buffered sinks)
    for m in (20, 45, 120):
        t = "<svg>" + "".join('<rect xy="%d %d" wh="3" text="r%d"/>' % (i * 4, i % 7, i) for i in range(m)) + "</svg>"
        seen.add(t)
        pool.append(t.encode("utf-8"))
    while len(pool) < n:
        k = rng.random()
        if k < 0.3:
            t = failing_doc(rng)
        elif k < 0.6:
            t = state_doc(rng)
        elif k < 0.8:
            t = docgen.gen_doc(rng, hostile=0.3, eval_atoms=0.02, prolog=0.2)[0]
        else:
            t = rng.choice(docs)
        if t in seen:
            continue
        seen.add(t)
        pool.append(t.encode("utf-8"))
    return pool


class Refs:
    """fresh-process references, computed once per (input, config)"""

    def __init__(self, acc):
        self.cache = {}
        self.acc = acc

    def get(self, data, cfg):
        key = (data, core.encode_cfg(cfg))
        if key not in self.cache:
            res = frontends.run_cli(core.cli_args(cfg), stdin=data, timeout=120)
            self.acc.evaluations += 1
            self.acc.count("cli.reference-runs")
            if res.timed_out:
                self.cache[key] = ("timeout", None)
            elif res.rc == 0:
                self.cache[key] = ("ok", res.out)
            elif res.rc == 1:
                self.cache[key] = ("err", res.err)
            else:
                self.cache[key] = ("crash", res.rc)
        return self.cache[key]


def lib_view(r):
    if r.status == "ok":
        return ("ok", r.out)
    if r.status == "err":
        return ("err", None)
    return (r.status, None)


def same(ref, got):
    if ref[0] != got[0]:
        return False
    if ref[0] == "ok":
        return ref[1] == got[1]
    return True


def record(acc, clause, sig, case, ref, got, what):
    acc.violation(clause, sig, case, observed=dict(got=(got[0], core.trunc(got[1], 500) if got[1] else got[1])),
                  expected=dict(reference=(ref[0], core.trunc(ref[1], 500) if isinstance(ref[1], (bytes, str)) else ref[1])), what=what)


# ------------------------------------------------------------------------------------------
# (a) agreement

def agreement_case(ctx, refs, fe, data, cfg):
    acc = ctx.acc
    acc.cases += 1
    ref = refs.get(data, cfg)
    if ref[0] in ("timeout", "crash"):
        acc.count("reference." + ref[0])
        return
    case = dict(kind="agreement", input=data, cfg=cfg)
    for api in ("str", "stream"):
        r = ctx.run(data, cfg, api=api)
        if r.status == "skip":
            continue
        got = lib_view(r)
        if not same(ref, got):
            record(acc, "frontends-disagree", "disagree:lib-%s/%s-vs-%s" % (api, ref[0], got[0]), dict(case, api=api), ref, got,
                   "library %s API differs from a fresh CLI process" % api)
    d = fe["dir"]
    ip, op = os.path.join(d, "in.xml"), os.path.join(d, "out.svg")
    open(ip, "wb").write(data)
    combos = [("file-stdout", [ip], None), ("file-file", [ip, "-o", op], None), ("stdin-file", ["-o", op], data)]
    for name, args, stdin in combos:
        if os.path.exists(op):
            os.unlink(op)
        res = frontends.run_cli(core.cli_args(cfg) + args, stdin=stdin, timeout=120)
        acc.evaluations += 1
        acc.count("cli." + name)
        if res.timed_out:
            acc.inconc("cli-wallclock")
            continue
        if res.rc == 0:
            out = res.out if name == "file-stdout" else (open(op, "rb").read() if os.path.exists(op) else None)
            got = ("ok", out)
        elif res.rc == 1:
            got = ("err", None)
            if not res.err.strip():
                acc.violation("failure-silent", "cli-failure-without-message", dict(case, via=name), observed="exit 1, empty stderr", expected="a message")
            if name != "file-stdout" and os.path.exists(op):
                acc.violation("failure-damage", "cli-failure-created-output", dict(case, via=name), observed="output file created by a failing run",
                              expected="no output file")
        else:
            got = ("crash", res.rc)
        if not same(ref, got):
            record(acc, "frontends-disagree", "disagree:cli-%s/%s-vs-%s" % (name, ref[0], got[0]), dict(case, via=name), ref, got,
                   "svgdx %s differs from svgdx stdin->stdout" % name)
    if not cfg or set(cfg) <= {"meta"}:
        status, ct, body, note = fe["server"].post(data, add_metadata=bool(cfg and cfg.get("meta")))
        acc.evaluations += 1
        acc.count("http.agreement")
        check_http(acc, case, ref, status, ct, body, note, data, cfg, ctx)


def check_http(acc, case, ref, status, ct, body, note, data, cfg, ctx=None, lib_err=None):
    if status is None:
        acc.violation("server-no-answer", "server:no-status(%s)" % note, case, observed=note, expected="an HTTP status")
        return
    if ref[0] == "ok":
        if ref[1] == b"":
            acc.count("excluded.empty-output")
            return
        if status != 200 or body != ref[1]:
            acc.violation("frontends-disagree", "disagree:server/ok-vs-%s" % status, case,
                          observed=dict(status=status, body=core.trunc(body, 400)), expected=dict(status=200, body=core.trunc(ref[1], 400)),
                          what="POST /api/transform differs from a fresh CLI process")
        elif ct != "image/svg+xml":
            acc.violation("content-type", "server:content-type-ok", case, observed=ct, expected="image/svg+xml")
    elif ref[0] == "err":
        if status != 400:
            acc.violation("failure-status", "server:failure-status-%s" % status, case, observed=dict(status=status, body=core.trunc(body, 300)),
                          expected="HTTP 400", what="failing transform answered with HTTP %s" % status)
        elif not (ct or "").startswith("text/plain"):
            acc.violation("failure-status", "server:failure-content-type", case, observed=ct, expected="text/plain")


# ------------------------------------------------------------------------------------------
# (b) histories

def sequential_histories(ctx, refs, fe, pool, n_hist, length):
    acc = ctx.acc
    rng = ctx.rng("hist")
    for h in range(n_hist):
        if ctx.out_of_time():
            break
        via = "worker" if h % 2 == 0 else "server"
        w = core.Worker() if via == "worker" else None
        if via == "server":
            fe["server"].stop()
            fe["server"].start()   # a fresh server process per history
        prev = None
        seq = []
        try:
            for pos in range(length):
                data = rng.choice(pool)
                cfg = rng.choice([None, None, dict(meta=True)])
                ref = refs.get(data, cfg)
                if ref[0] in ("timeout", "crash"):
                    continue
                seq.append(pool.index(data))
                acc.cases += 1
                case = dict(kind="history", via=via, history=list(seq), pos=pos, input=data, cfg=cfg)
                if via == "worker":
                    short = (pos % 3 == 0)
                    r = w.run(data, cfg, api=("streamshort" if short else "stream"))
                    acc.evaluations += 1
                    got = lib_view(r)
                    if not same(ref, got):
                        # is it the history, or the sink? (the short-write sink accepts 7 bytes per write() call)
                        alone = None
                        if short:
                            w1 = core.Worker()
                            try:
                                alone = lib_view(w1.run(data, cfg, api="streamshort"))
                            finally:
                                w1.close()
                        if short and not same(ref, alone):
                            record(acc, "frontends-disagree", "disagree:lib-stream-short-writes/%s-vs-%s" % (ref[0], alone[0]), case, ref, alone,
                                   "transform_stream into a sink that accepts a few bytes per write() call delivers something else than the other front-ends")
                        else:
                            record(acc, "history-dependence", "history:worker/%s-vs-%s" % (ref[0], got[0]), case, ref, got,
                                   "response at position %d of a sequential history differs from a fresh process" % pos)
                else:
                    status, ct, body, note = fe["server"].post(data, add_metadata=bool(cfg))
                    acc.evaluations += 1
                    acc.count("http.sequential")
                    check_http(acc, case, ref, status, ct, body, note, data, cfg)
                if prev is not None and prev != ref:
                    acc.nontriv(core.chash("seq", ctx.shard, h, pos), ["history.sequential." + via])
                prev = ref
        finally:
            if w:
                w.close()


def concurrent_batches(ctx, refs, fe, pool, n_batches, nthreads, per_thread):
    acc = ctx.acc
    rng = ctx.rng("conc")
    for b in range(n_batches):
        if ctx.out_of_time():
            break
        # ---- against the server
        plans = []
        for t in range(nthreads):
            plan = []
            for _ in range(per_thread):
                data = rng.choice(pool)
                cfg = rng.choice([None, None, dict(meta=True)])
                if refs.get(data, cfg)[0] in ("timeout", "crash"):
                    continue
                plan.append((data, cfg, rng.random() * 0.002))
            plans.append(plan)
        events = []
        lock = threading.Lock()
        srv = fe["server"]
        if not srv.alive():
            srv.start()

        def client(tid, plan):
            for k, (data, cfg, jitter) in enumerate(plan):
                time.sleep(jitter)
                t0 = time.monotonic()
                status, ct, body, note = srv.post(data, add_metadata=bool(cfg))
                t1 = time.monotonic()
                with lock:
                    events.append((tid, k, t0, t1, data, cfg, status, ct, body, note))

        ths = [threading.Thread(target=client, args=(i, p)) for i, p in enumerate(plans)]
        for th in ths:
            th.start()
        for th in ths:
            th.join()
        acc.evaluations += len(events)
        acc.count("http.concurrent", len(events))
        # offline check of the recorded history
        evs = sorted(events, key=lambda e: e[2])
        maxc, pairs = 0, set()
        for i, e in enumerate(evs):
            acc.cases += 1
            ref = refs.get(e[4], e[5])
            case = dict(kind="concurrent", via="server", batch=b, thread=e[0], k=e[1], input=e[4], cfg=e[5])
            check_http(acc, case, ref, e[6], e[7], e[8], e[9], e[4], e[5])
            overl = [o for o in evs if o is not e and o[2] < e[3] and o[3] > e[2]]
            maxc = max(maxc, len(overl) + 1)
            differing = [o for o in overl if refs.get(o[4], o[5]) != ref]
            if differing:
                acc.nontriv(core.chash("conc", ctx.shard, b, e[0], e[1]), ["history.concurrent.server"])
                for o in differing[:4]:
                    pairs.add((hash(e[4]) & 0xffff, hash(o[4]) & 0xffff))
        acc.maxi("max_requests_overlapping_one_request.server", maxc)
        acc.count("distinct_overlapping_doc_pairs.server", len(pairs))
        # ---- inside the library (THREADS batch in one worker process)
        jobs = []
        for _ in range(nthreads * 4):
            data = rng.choice(pool)
            cfg = rng.choice([None, dict(meta=True), dict(seed=3), dict(theme="dark")])
            if refs.get(data, cfg)[0] in ("timeout", "crash"):
                continue
            jobs.append((data, cfg, "stream"))
        res = ctx.worker.run_threads(jobs, nthreads)
        acc.evaluations += len(jobs)
        acc.count("lib.concurrent", len(jobs))
        spans = [(c, t) for (c, t, r) in res if c is not None and t is not None]
        for (data, cfg, _), (c, t, r) in zip(jobs, res):
            acc.cases += 1
            ref = refs.get(data, cfg)
            got = lib_view(r)
            if not same(ref, got):
                record(acc, "interference", "concurrent:lib/%s-vs-%s" % (ref[0], got[0]), dict(kind="threads", input=data, cfg=cfg), ref, got,
                       "result of a transform running concurrently with others in one process differs from a fresh process")
            if c is not None and t is not None and sum(1 for (c2, t2) in spans if c2 < t and t2 > c) > 1:
                acc.nontriv(core.chash("libconc", ctx.shard, b, data, core.encode_cfg(cfg)), ["history.concurrent.lib"])


# ------------------------------------------------------------------------------------------
# (c) failures leave no damage, (d) same-file refusal

def file_effects(ctx, refs, fe, pool):
    acc = ctx.acc
    rng = ctx.rng("files")
    d = fe["dir"]
    ip, op = os.path.join(d, "fin.xml"), os.path.join(d, "fout.svg")
    n = 12 if ctx.quick() else 60
    late = [t.encode("utf-8") for t in LATE_FAIL]
    for i in range(n + len(late)):
        data = late[i - n] if i >= n else rng.choice(pool)
        ref = refs.get(data, None)
        if ref[0] not in ("ok", "err"):
            continue
        acc.cases += 1
        open(ip, "wb").write(data)
        sentinel = rng.choice([b"S", b"SENTINEL " * 3000, b"<svg>old</svg>\n"])
        open(op, "wb").write(sentinel)
        st0 = os.stat(op)
        time.sleep(0.01)
        res = frontends.run_cli([ip, "-o", op], timeout=120)
        acc.evaluations += 1
        acc.count("cli.file-effects")
        now = open(op, "rb").read() if os.path.exists(op) else None
        case = dict(kind="file-effects", input=data, sentinel_len=len(sentinel))
        if ref[0] == "err":
            acc.nontriv(core.chash("file", ctx.shard, i), ["files.failing-with-existing-output"])
            if res.rc == 0:
                acc.violation("failure-exit-status", "cli-failure-exit-0", case, observed="exit 0", expected="non-zero exit")
            if not res.err.strip():
                acc.violation("failure-silent", "cli-failure-without-message", case, observed="empty stderr", expected="a message")
            if now != sentinel:
                acc.violation("failure-damage", "cli-failure-changed-output", case, observed=core.trunc(now, 200), expected="output file untouched",
                              what="a failing run changed the existing output file")
            else:
                st1 = os.stat(op)
                if st1.st_mtime_ns != st0.st_mtime_ns or st1.st_ino != st0.st_ino:
                    acc.count("failing-run-touched-output-metadata(bytes identical)")
        else:
            acc.nontriv(core.chash("file", ctx.shard, i), ["files.success-over-existing-output"])
            if res.rc != 0 or now != ref[1]:
                acc.violation("frontends-disagree", "disagree:cli-overwrite", case, observed=dict(rc=res.rc, out=core.trunc(now, 300)),
                              expected=core.trunc(ref[1], 300), what="output written over an existing (shorter/longer) file differs from stdout output")
    # missing input with existing output
    open(op, "wb").write(b"KEEP")
    res = frontends.run_cli([os.path.join(d, "does-not-exist.xml"), "-o", op])
    acc.evaluations += 1
    acc.cases += 1
    if res.rc == 0 or open(op, "rb").read() != b"KEEP" or not res.err.strip():
        acc.violation("failure-damage", "cli-missing-input", dict(kind="missing-input"), observed=dict(rc=res.rc, err=core.trunc(res.err, 200)),
                      expected="non-zero exit, message, output untouched")
    # (d) same file, four spellings
    good = b'<svg><rect wh="3" text="same-file"/></svg>'
    sub = os.path.join(d, "sub")
    os.makedirs(sub, exist_ok=True)
    sp = os.path.join(d, "same.xml")
    link = os.path.join(d, "link.svg")
    spellings = {"same-path": (sp, sp), "dot-slash": (sp, os.path.join(d, ".", "same.xml")),
                 "dir-dotdot": (sp, os.path.join(sub, "..", "same.xml")), "symlink": (sp, link),
                 "relative-vs-absolute": ("same.xml", sp)}
    for name, (i_path, o_path) in spellings.items():
        open(sp, "wb").write(good)
        if name == "symlink":
            if os.path.lexists(link):
                os.unlink(link)
            os.symlink(sp, link)
        res = frontends.run_cli([i_path, "-o", o_path], cwd=d)
        acc.evaluations += 1
        acc.cases += 1
        acc.nontriv(core.chash("samefile", name, ctx.shard), ["files.same-file." + name])
        after = open(sp, "rb").read()
        if res.rc == 0 or after != good:
            acc.violation("same-file", "cli-same-file-not-refused:" + name, dict(kind="same-file", spelling=name),
                          observed=dict(rc=res.rc, input_after=core.trunc(after, 200)), expected="refusal (non-zero exit) and the input unchanged",
                          what="svgdx wrote over its own input (%s)" % name)


    # output that cannot be written (stdout is a full device): the transform has failed, so the command must say so and exit
    # non-zero, whether the document came from a file or from stdin
    if os.path.exists("/dev/full"):
        import subprocess
        oks = [dd for dd in pool[:200] if refs.get(dd, None)[0] == "ok" and len(refs.get(dd, None)) > 1]
        for j in range(min(len(oks), 6 if ctx.quick() else 40)):
            data = oks[j]
            open(ip, "wb").write(data)
            for form in ("file-to-stdout", "stdin-to-stdout", "stdin-to-dash"):
                args = {"file-to-stdout": [ip], "stdin-to-stdout": [], "stdin-to-dash": ["-o", "-"]}[form]
                try:
                    with open("/dev/full", "wb") as full:
                        pr = subprocess.run([core.CLI_BIN] + args, input=(b"" if form == "file-to-stdout" else data), stdout=full,
                                            stderr=subprocess.PIPE, timeout=120, preexec_fn=core._limits)
                except (OSError, subprocess.TimeoutExpired):
                    acc.count("cli.write-failure.not-run")
                    continue
                acc.evaluations += 1
                acc.cases += 1
                acc.nontriv(core.chash("writefail", form, data), ["files.write-failure." + form])
                if pr.returncode == 0 or not pr.stderr.strip():
                    # stdout is line-buffered by std: output that does not end with a line break (fragments without a root <svg>)
                    # is still in the buffer when svgdx returns, a family of its own
                    out = refs.get(data, None)[1] or b""
                    if isinstance(out, str):
                        out = out.encode("utf-8")
                    tail = "" if out.endswith(b"\n") else "/output-without-final-newline"
                    acc.violation("write-failure", "cli-write-failure-not-reported:" + form + tail, dict(kind="write-failure", form=form, input=data),
                                  observed=dict(rc=pr.returncode, stderr=core.trunc(pr.stderr, 200)), expected="non-zero exit status and a message",
                                  what="stdout could not be written (ENOSPC) but svgdx reported success")


# ------------------------------------------------------------------------------------------

def run_phases(ctx, phases=("agreement", "sequential", "concurrent", "files")):
    acc = ctx.acc
    quick = ctx.quick()
    fe = {"dir": frontends.scratch_dir("c07"), "server": frontends.Server()}
    fe["server"].start()
    refs = Refs(acc)
    try:
        pool = build_pool(ctx.rng("pool"), 32 if quick else 100)
        acc.sample(dict(pool_size=len(pool), example=core.trunc(pool[0], 300)), limit=2)
        rng = ctx.rng("agree")
        if "agreement" in phases:
            for i, data in enumerate(pool):
                if ctx.out_of_time():
                    break
                cfgs = [None, dict(meta=True)] + [docgen.gen_cfg(rng, allow_local=False) for _ in range(1 if quick else 3)]
                for cfg in cfgs[: (3 if quick else 5)]:
                    agreement_case(ctx, refs, fe, data, cfg)
                    acc.nontriv(core.chash("agree", data, core.encode_cfg(cfg)), ["agreement"])
        if "sequential" in phases:
            sequential_histories(ctx, refs, fe, pool, 6 if quick else 20, 50)
        if "concurrent" in phases:
            concurrent_batches(ctx, refs, fe, pool, 2 if quick else 10, ctx.rng("nt").choice([16, 32]) if quick else 64, 12 if quick else 40)
        if "files" in phases:
            file_effects(ctx, refs, fe, pool)
    finally:
        fe["server"].stop()
        frontends.rm(fe["dir"])


def run_shard(ctx):
    run_phases(ctx)


def check_case(ctx, case):
    """replay: re-run the phase the recorded case belongs to on that input"""
    fe = {"dir": frontends.scratch_dir("c07r"), "server": frontends.Server()}
    fe["server"].start()
    refs = Refs(ctx.acc)
    try:
        kind = case.get("kind")
        if kind in ("agreement", "history", "concurrent", "threads"):
            agreement_case(ctx, refs, fe, case["input"], case.get("cfg"))
            if kind in ("history",):
                # replay the recorded sequence prefix is not possible without the pool; re-run the request twice in one worker
                for _ in range(2):
                    r = ctx.run(case["input"], case.get("cfg"), api="stream")
                    if not same(refs.get(case["input"], case.get("cfg")), lib_view(r)):
                        record(ctx.acc, "history-dependence", "history:worker", case, refs.get(case["input"], case.get("cfg")), lib_view(r), "repeat differs")
        else:
            file_effects(ctx, refs, fe, [case.get("input", b"<svg><rect wh=\"1\"/></svg>")])
    finally:
        fe["server"].stop()
        frontends.rm(fe["dir"])
